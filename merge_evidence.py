#!/usr/bin/env python3
"""Merge the two per-build-profile evidence parts of a check into one evidence file."""
import json, sys
a = json.load(open(sys.argv[1])); b = json.load(open(sys.argv[2]))
out = dict(a)
ca, cb = a["coverage"], b["coverage"]
cov = dict(ca)
cov["evaluations"] = ca["evaluations"] + cb["evaluations"]
cov["distinct_nontrivial"] = ca["distinct_nontrivial"] + cb["distinct_nontrivial"]
cov["rule"] = ca["rule"] + " The same seeds are run in two build profiles (release; release + debug assertions + overflow checks); evaluations and distinct_nontrivial count (case, build profile) pairs, per-profile numbers are under 'profiles'."
cov["samples"] = ca["samples"] + cb["samples"][:1]
cov["build_profile"] = [ca["build_profile"], cb["build_profile"]]
def add(x, y):
    if isinstance(x, dict) and isinstance(y, dict):
        return {k: add(x.get(k, 0), y.get(k, 0)) for k in sorted(set(x) | set(y))}
    if isinstance(x, (int, float)) and isinstance(y, (int, float)) and not isinstance(x, bool):
        return x + y
    return x
for k in ("operations", "library_calls_under_a_policy", "entropy_draws_served", "policies_used", "fault_kinds_fired", "reach_probes", "operation_mix", "element_types"):
    cov[k] = add(ca.get(k, 0), cb.get(k, 0))
cov["unreached_probes"] = sorted(set(ca.get("unreached_probes", [])) & set(cb.get("unreached_probes", [])))
cov["runs_per_hour"] = int(cov["evaluations"] / max(a["wall_s"] + b["wall_s"], 1e-9) * 3600)
cov["profiles"] = {
    "release": {k: ca[k] for k in ("evaluations", "distinct_nontrivial", "fault_kinds_fired", "determinism", "stopped_early")},
    "relcheck": {k: cb[k] for k in ("evaluations", "distinct_nontrivial", "fault_kinds_fired", "determinism", "stopped_early")},
}
out["coverage"] = cov
out["wall_s"] = a["wall_s"] + b["wall_s"]
out["violations"] = a.get("violations", 0) + b.get("violations", 0)
json.dump(out, open(sys.argv[3], "w"), indent=1)
