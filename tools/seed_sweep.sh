#!/bin/bash
# false-alarm sweep on the current tree: every property under several VERIF_SEEDs (evidence to /tmp)
cd /verif/sim
if [ -n "$(git -C /repo status --porcelain --untracked-files=no)" ]; then echo '/repo is dirty'; exit 2; fi
cargo build --offline --release >/dev/null 2>&1 || exit 2; cargo build --offline --profile relcheck >/dev/null 2>&1 || exit 2
for seed in "$@"; do
  for p in C01 C02 C03 C11 C14 C16 C18 C19; do
    for bin in release relcheck; do
      [ $bin = relcheck ] && [ $p != C16 ] && continue
      out=$(./target/$bin/simctl run $p quick --seed $seed --evidence /tmp/sweep-$p.json 2>&1); rc=$?
      echo "seed=$seed $p $bin exit=$rc $(echo "$out" | grep -E '^VIOLATION|HARNESS' | head -2 | cut -c1-300)"
    done
  done
done
