#!/bin/bash
# tools/confirm_mutants.sh <base> <worktree> <props...> : confirm every sub-agent change under /tmp/<base>-<prop>/out/<k>
# in one scratch worktree: pinned suite passes with it, demo fails with it, demo passes without it.
base=$1; wt=$2; shift 2
mkdir -p /tmp/confirm-$base
cd $wt || exit 2
for p in "$@"; do
 for k in 1 2 3 4; do
  d=/tmp/$base-$p/out/$k
  [ -f $d/patch.diff ] || continue
  out=/tmp/confirm-$base/$p-$k.txt
  git checkout -q -- . ; git clean -fdq -e target
  git apply $d/patch.diff || { echo "APPLY_FAIL" > $out; continue; }
  suite=FAIL; cargo test --offline --lib --tests > /tmp/confirm-$base/$p-$k.suite.log 2>&1 && suite=PASS
  cp $d/demo.rs tests/demo_x.rs
  with=PASS; cargo test --offline --test demo_x > /tmp/confirm-$base/$p-$k.with.log 2>&1 || with=FAIL
  git checkout -q -- .
  without=FAIL; cargo test --offline --test demo_x > /tmp/confirm-$base/$p-$k.without.log 2>&1 && without=PASS
  rm -f tests/demo_x.rs
  echo "suite_with_change=$suite demo_with_change=$with demo_without_change=$without" > $out
  echo "$p-$k $(cat $out)"
 done
done
git checkout -q -- . ; git clean -fdq -e target
