#!/bin/bash
# Confirms every sub-agent change in one scratch worktree: compiles + suite passes with it,
# demo fails with it, demo passes without it. Writes /tmp/confirm/<prop>-<k>.txt
wt=/tmp/mut-C01/wt
mkdir -p /tmp/confirm
cd $wt || exit 2
for p in "$@"; do
 for k in 1 2 3; do
  d=/tmp/mut-$p/out/$k
  [ -f $d/patch.diff ] || continue
  out=/tmp/confirm/$p-$k.txt
  git checkout -q -- . ; git clean -fdq -e target
  git apply $d/patch.diff || { echo "APPLY_FAIL" > $out; continue; }
  suite=FAIL; cargo test --offline --lib --tests > /tmp/confirm/$p-$k.suite.log 2>&1 && suite=PASS
  cp $d/demo.rs tests/demo_x.rs
  with=PASS; cargo test --offline --test demo_x > /tmp/confirm/$p-$k.with.log 2>&1 || with=FAIL
  git checkout -q -- . 
  without=FAIL; cargo test --offline --test demo_x > /tmp/confirm/$p-$k.without.log 2>&1 && without=PASS
  rm -f tests/demo_x.rs
  echo "suite_with_change=$suite demo_with_change=$with demo_without_change=$without" > $out
  cat $out
 done
done
git checkout -q -- . ; git clean -fdq -e target
