#!/usr/bin/env python3
"""Runs every seeded change in /verif/seeded against the quick check of the property it breaks
(apply to /repo, run, undo) and records the outcome in its meta.json and in evidence/sensitivity.json."""
import json, os, subprocess, sys, time, re
root="/verif"
only=sys.argv[1:]
rows=[]
for d in sorted(os.listdir(f"{root}/seeded")):
    if only and not any(d.startswith(o) for o in only): 
        m=json.load(open(f"{root}/seeded/{d}/meta.json"))
        if "check_result" in m: rows.append({"id":d, **m["check_result"]})
        continue
    meta_p=f"{root}/seeded/{d}/meta.json"
    m=json.load(open(meta_p)); prop=m["breaks_property"]
    if subprocess.run(["git","-C","/repo","status","--porcelain","--untracked-files=no"],capture_output=True,text=True).stdout.strip():
        print("/repo dirty"); sys.exit(2)
    if subprocess.run(["git","-C","/repo","apply",f"{root}/seeded/{d}/patch.diff"]).returncode!=0:
        print(d,"patch does not apply"); continue
    t=time.time()
    try:
        r=subprocess.run([f"{root}/check",prop,"quick"],capture_output=True,text=True,cwd=root)
    finally:
        subprocess.run(["git","-C","/repo","checkout","--","."])
    secs=round(time.time()-t,1)
    classes=sorted(set(re.findall(r"^VIOLATION .*? class=(\S+)", r.stdout, re.M)))
    first=[l[:300] for l in r.stdout.splitlines() if l.startswith("VIOLATION")][:1]
    res={"check":f"./check {prop} quick","exit":r.returncode,"detected":r.returncode==1,"violation_classes":classes,"first_violation":first,"seconds_incl_rebuild":secs}
    m["check_result"]=res
    json.dump(m,open(meta_p,"w"),indent=1)
    rows.append({"id":d,**res})
    print(d,res["exit"],classes,secs,flush=True)
subprocess.run("cd /verif/sim && cargo build --offline --release >/dev/null 2>&1; cargo build --offline --profile relcheck >/dev/null 2>&1", shell=True)
json.dump({"what":"seeded changes vs the quick check of the property they break","rows":rows,"detected":sum(1 for r in rows if r.get("detected")),"total":len(rows)},open(f"{root}/evidence/sensitivity.json","w"),indent=1)
