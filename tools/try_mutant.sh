#!/bin/bash
# tools/try_mutant.sh <patch.diff> <property> [tier] : apply a seeded change to /repo, run the check, undo it.
patch="$1"; prop="$2"; tier="${3:-quick}"
cd /repo || exit 2
if [ -n "$(git status --porcelain --untracked-files=no)" ]; then echo "/repo is dirty"; exit 2; fi
git apply "$patch" || { echo "patch does not apply"; exit 2; }
cd /verif
start=$(date +%s)
./check "$prop" "$tier" > /tmp/try_mutant.out 2>&1; rc=$?
end=$(date +%s)
git -C /repo checkout -- . 
# rebuild against the restored tree so that no later command uses a binary built from the change
(cd /verif/sim && cargo build --offline --release >/dev/null 2>&1; cargo build --offline --profile relcheck >/dev/null 2>&1)
grep -E "^VIOLATION|^KNOWN|HARNESS" /tmp/try_mutant.out | cut -c1-420 | head -6
echo "RESULT prop=$prop patch=$patch exit=$rc secs=$((end-start))"
