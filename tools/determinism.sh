#!/bin/bash
# Proves replayability of the simulator on a large sample: per-run trace digests of N seeds,
# twice in fresh processes, and batch digests at 1 and 16 worker threads, for several VERIF_SEEDs.
# Writes /verif/evidence/determinism.json ; exit 0 iff everything matched.
cd "$(dirname "$0")/../sim" || exit 2
bin=./target/release/simctl
N=${1:-3000}
ok=1; report=()
for p in C01 C02 C03 C11 C14 C16 C18 C19; do
  for seed in 1 20261002 987654321; do
    a=$($bin digests $p quick --runs $N --seed $seed | sha256sum | cut -c1-16)
    b=$($bin digests $p quick --runs $N --seed $seed | sha256sum | cut -c1-16)
    $bin run $p quick --runs 20000 --threads 1 --seed $seed --evidence /tmp/det1.json >/dev/null 2>&1
    $bin run $p quick --runs 20000 --threads 16 --seed $seed --evidence /tmp/det16.json >/dev/null 2>&1
    $bin run $p quick --runs 20000 --threads 5 --seed $seed --evidence /tmp/det5.json >/dev/null 2>&1
    x1=$(python3 -c "import json;d=json.load(open('/tmp/det1.json'))['coverage']['determinism'];print(d['batch_digest_xor'],d['batch_digest_sum'])")
    x16=$(python3 -c "import json;d=json.load(open('/tmp/det16.json'))['coverage']['determinism'];print(d['batch_digest_xor'],d['batch_digest_sum'])")
    x5=$(python3 -c "import json;d=json.load(open('/tmp/det5.json'))['coverage']['determinism'];print(d['batch_digest_xor'],d['batch_digest_sum'])")
    st=match
    if [ "$a" != "$b" ] || [ "$x1" != "$x16" ] || [ "$x1" != "$x5" ]; then st=MISMATCH; ok=0; fi
    echo "$p seed=$seed per-run($N)=$a/$b batch(20000)@1=$x1 @5=$x5 @16=$x16 $st"
    report+=("{\"property\":\"$p\",\"seed\":$seed,\"per_run_digests\":$N,\"two_process_hash\":[\"$a\",\"$b\"],\"batch_runs\":20000,\"batch_digest_threads_1\":\"$x1\",\"batch_digest_threads_5\":\"$x5\",\"batch_digest_threads_16\":\"$x16\",\"status\":\"$st\"}")
  done
done
printf '{"what":"trace digests compared across fresh processes and worker counts","rows":[%s]}\n' "$(IFS=,; echo "${report[*]}")" > ../evidence/determinism.json
rm -f /tmp/det1.json /tmp/det16.json /tmp/det5.json
[ $ok = 1 ]
