#!/bin/bash
# tools/benign.sh <patch...> : apply a behaviour-preserving change to /repo and run every check on it; all must stay green.
cd /verif/sim
for patch in "$@"; do
  if [ -n "$(git -C /repo status --porcelain --untracked-files=no)" ]; then echo "/repo dirty"; exit 2; fi
  git -C /repo apply "$patch" || { echo "APPLY FAIL $patch"; continue; }
  cargo build --offline --release >/dev/null 2>&1 && cargo build --offline --profile relcheck >/dev/null 2>&1 || { echo "BUILD FAIL $patch"; git -C /repo checkout -- .; continue; }
  res=""
  for p in C01 C02 C03 C11 C14 C16 C18 C19; do
    out=$(./target/release/simctl run $p quick --runs ${RUNS:-400000} --evidence /tmp/benign-$p.json 2>&1); rc=$?
    res="$res $p=$rc"
    [ $rc -ne 0 ] && echo "$out" | grep -E "^VIOLATION|HARNESS|NOTE" | head -3 | cut -c1-400
    if [ $p = C16 ]; then
      out=$(./target/relcheck/simctl run $p quick --runs ${RUNS:-400000} --evidence /tmp/benign-$p.json 2>&1); rc=$?
      res="$res C16rc=$rc"
      [ $rc -ne 0 ] && echo "$out" | grep -E "^VIOLATION|HARNESS|NOTE" | head -3 | cut -c1-400
    fi
  done
  git -C /repo checkout -- .
  echo "BENIGN $patch :$res"
done
cargo build --offline --release >/dev/null 2>&1; cargo build --offline --profile relcheck >/dev/null 2>&1
