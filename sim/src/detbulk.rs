//! The deterministic members of C18 (no entropy is consumed; they ride along
//! because the property is stated as one): bulk central moments vs single
//! moments, per-axis weighted statistics vs the whole-array routine per lane.

use crate::scenario::Op;
use crate::stats::Ctx;
use ndarray::{Array, Array1, ArrayD, Axis, IxDyn, ShapeBuilder};
use num_traits::{Float, FromPrimitive};
use std::ops::AddAssign;
use ndarray_stats::SummaryStatisticsExt;
use std::panic::{catch_unwind, AssertUnwindSafe};

pub fn op_det_bulk(cx: &mut Ctx, op: &Op) {
    let r = catch_unwind(AssertUnwindSafe(|| match op.name.as_str() {
        "moments" => moments(op),
        "weighted_axis" => weighted(op),
        _ => Ok(()),
    }));
    match r {
        Ok(Ok(())) => {}
        Ok(Err((class, msg))) => cx.fail(&class, msg),
        Err(_) => cx.fail("bulk-vs-single:panic", format!("{} panicked: {}", op.name, crate::entropy::last_panic_message())),
    }
}

type R = Result<(), (String, String)>;

fn moments(op: &Op) -> R {
    let ints = op.aux.first().cloned().unwrap_or_default();
    if ints.is_empty() {
        return Ok(());
    }
    let scale = [1.0, 0.125, 0.1, 1e6, 1e-5, 0.001, 1e100, 1e198, 1e-160][op.aux.get(1).and_then(|a| a.first()).copied().unwrap_or(0).rem_euclid(9) as usize];
    let kind = op.aux.get(2).and_then(|a| a.first()).copied().unwrap_or(0);
    let offset = op.aux.get(3).and_then(|a| a.first()).copied().unwrap_or(0) as f64;
    let p = op.idx.first().copied().unwrap_or(0).min(10) as u16;
    let vals: Vec<f64> = ints.iter().map(|&v| v as f64 * scale + offset).collect();
    // optional shape / layout: the same values as a 2-D or 3-D array in C order, F order or with reversed axes
    let shape: Vec<usize> = op.aux.get(4).map(|a| a.iter().map(|&x| x.max(1) as usize).collect()).unwrap_or_default();
    let layout = op.aux.get(5).and_then(|a| a.first()).copied().unwrap_or(0);
    let shape = if !shape.is_empty() && shape.iter().product::<usize>() == vals.len() { shape } else { vec![vals.len()] };
    if kind == 1 {
        moments_nd(vals.iter().map(|&v| v as f32).collect::<Vec<f32>>(), &shape, layout, p, |x: f32| x.to_bits() as u64)
    } else {
        moments_nd(vals, &shape, layout, p, |x: f64| x.to_bits())
    }
}

fn moments_nd<T>(vals: Vec<T>, shape: &[usize], layout: i64, p: u16, bits: impl Fn(T) -> u64) -> R
where
    T: Float + FromPrimitive + std::fmt::Debug,
{
    let a = build(shape, vals, layout == 1);
    if layout == 2 && a.ndim() >= 2 {
        let a = a.reversed_axes();
        moments_t(a, p, bits)
    } else {
        moments_t(a, p, bits)
    }
}

fn moments_t<T>(a: ArrayD<T>, p: u16, bits: impl Fn(T) -> u64) -> R
where
    T: Float + FromPrimitive + std::fmt::Debug,
{
    let bulk = a.central_moments(p).map_err(|_| ("bulk-vs-single:moments".to_string(), "central_moments on non-empty data returned EmptyInput".to_string()))?;
    if bulk.len() != p as usize + 1 {
        return Err(("bulk-vs-single:moments".into(), format!("central_moments({}) returned {} entries", p, bulk.len())));
    }
    for k in 0..=p {
        let single = a.central_moment(k).map_err(|_| ("bulk-vs-single:moments".to_string(), "central_moment returned EmptyInput".to_string()))?;
        if bits(single) != bits(bulk[k as usize]) {
            return Err((
                "bulk-vs-single:moments".into(),
                format!("central_moments({})[{}] = {:?} but central_moment({}) = {:?} (not bit-identical) on {} values of type {} (shape {:?}, strides {:?}), first few {:?}", p, k, bulk[k as usize], k, single, a.len(), std::any::type_name::<T>(), a.shape(), a.strides(), a.iter().take(6).collect::<Vec<_>>()),
            ));
        }
    }
    Ok(())
}

fn build<T: Clone>(shape: &[usize], data: Vec<T>, f_order: bool) -> ArrayD<T> {
    let c = ArrayD::from_shape_vec(IxDyn(shape), data).unwrap();
    if f_order {
        // same logical contents, column-major memory
        let mut f = ArrayD::from_elem(IxDyn(shape).f(), c.iter().next().unwrap().clone());
        f.assign(&c);
        f
    } else {
        c
    }
}

fn weighted_float_check<T, D>(a: Array<T, D>, w: Array1<T>, axis: usize, ddof: T, eps: f64) -> R
where
    T: Float + FromPrimitive + AddAssign + std::fmt::Debug + 'static,
    D: ndarray::Dimension + ndarray::RemoveAxis,
{
    let err = |what: &str, e: String| ("bulk-vs-single:weighted".to_string(), format!("{}: {}", what, e));
    let n = w.len() as f64;
    let sums = a.weighted_sum_axis(Axis(axis), &w).map_err(|e| err("weighted_sum_axis", format!("{:?}", e)))?;
    let means = a.weighted_mean_axis(Axis(axis), &w).map_err(|e| err("weighted_mean_axis", format!("{:?}", e)))?;
    // a request both forms reject by panicking (or both accept) is fine; one of each is not
    let axis_var = catch_unwind(AssertUnwindSafe(|| a.weighted_var_axis(Axis(axis), &w, ddof)));
    let lane_var = catch_unwind(AssertUnwindSafe(|| a.lanes(Axis(axis)).into_iter().next().map(|l| l.weighted_var(&w.view(), ddof).is_ok())));
    if axis_var.is_err() != lane_var.is_err() {
        return Err(err("panic", format!("weighted_var_axis(ddof {:?}) {} while the whole-array routine on a lane {}", ddof, if axis_var.is_err() { "panics" } else { "returns" }, if lane_var.is_err() { "panics" } else { "returns" })));
    }
    if axis_var.is_err() {
        return Ok(());
    }
    let vars = a.weighted_var_axis(Axis(axis), &w, ddof).map_err(|e| err("weighted_var_axis", format!("{:?}", e)))?;
    let stds = a.weighted_std_axis(Axis(axis), &w, ddof).map_err(|e| err("weighted_std_axis", format!("{:?}", e)))?;
    let mut want_shape = a.shape().to_vec();
    want_shape.remove(axis);
    for (nm, sh) in [("sum", sums.shape()), ("mean", means.shape()), ("var", vars.shape()), ("std", stds.shape())] {
        if sh != want_shape.as_slice() {
            return Err(err("shape", format!("weighted_{}_axis returned shape {:?}, expected {:?}", nm, sh, want_shape)));
        }
    }
    let f = |x: T| x.to_f64().unwrap();
    let wv = w.view();
    for (l, lane) in a.lanes(Axis(axis)).into_iter().enumerate() {
        let abs_terms: f64 = lane.iter().zip(w.iter()).map(|(d, w)| (f(*d) * f(*w)).abs()).sum();
        let wsum: f64 = w.iter().map(|x| f(*x)).sum();
        let tol = 8.0 * n * eps;
        let s1 = f(lane.weighted_sum(&wv).unwrap());
        let m1 = f(lane.weighted_mean(&wv).unwrap());
        let v1 = f(lane.weighted_var(&wv, ddof).unwrap());
        let d1 = f(lane.weighted_std(&wv, ddof).unwrap());
        let got = [f(*sums.iter().nth(l).unwrap()), f(*means.iter().nth(l).unwrap()), f(*vars.iter().nth(l).unwrap()), f(*stds.iter().nth(l).unwrap())];
        let sq_terms: f64 = lane.iter().zip(w.iter()).map(|(d, w)| f(*d) * f(*d) * f(*w).abs()).sum();
        let denom = (wsum - f(ddof)).abs().max(1e-300);
        let checks = [
            ("sum", s1, got[0], tol * abs_terms),
            ("mean", m1, got[1], tol * abs_terms / wsum.abs()),
            ("var", v1, got[2], 4.0 * tol * sq_terms / denom),
            ("std", d1, got[3], 4.0 * tol * (sq_terms / denom).sqrt() + (4.0 * tol * sq_terms / denom).sqrt()),
        ];
        for (nm, single, axis_v, t) in checks {
            // "equals": the statement asks for equality, not closeness (NaN == NaN, 0.0 == -0.0 here)
            let _ = t;
            let ok = (single.is_nan() && axis_v.is_nan()) || single == axis_v;
            if !ok {
                return Err(err(
                    "value",
                    format!("weighted_{}_axis(axis {}) lane {} = {:?}, the whole-array routine on that lane gives {:?} (lane {:?}, weights {:?}, ddof {:?})", nm, axis, l, axis_v, single, lane, w, ddof),
                ));
            }
        }
    }
    Ok(())
}

macro_rules! float_weighted {
    ($t:ty, $shape:expr, $ints:expr, $wints:expr, $axis:expr, $ddof:expr, $f:expr, $static:expr, $scale:expr) => {{
        // integers beyond +-10^6 stand for huge magnitudes and infinities
        let data: Vec<$t> = $ints.iter().map(|&v| if v == 2_000_000 { <$t>::INFINITY } else if v == -2_000_000 { <$t>::NEG_INFINITY } else if v.abs() > 1_000_000 { (v as $t) * (<$t>::MAX / 4_000_000.0) } else { v as $t * $scale as $t }).collect();
        let a = build(&$shape, data, $f);
        let w = Array1::from($wints.iter().map(|&v| v as $t * (if $scale == 0.25 { 0.5 } else { 0.3 }) as $t).collect::<Vec<$t>>());
        let eps = <$t>::EPSILON as f64;
        let ddof = $ddof as $t;
        if $static && $shape.len() == 1 {
            weighted_float_check(a.into_dimensionality::<ndarray::Ix1>().unwrap(), w, $axis, ddof, eps)
        } else if $static && $shape.len() == 2 {
            weighted_float_check(a.into_dimensionality::<ndarray::Ix2>().unwrap(), w, $axis, ddof, eps)
        } else if $static && $shape.len() == 3 {
            weighted_float_check(a.into_dimensionality::<ndarray::Ix3>().unwrap(), w, $axis, ddof, eps)
        } else {
            weighted_float_check(a, w, $axis, ddof, eps)
        }
    }};
}

fn weighted(op: &Op) -> R {
    if op.aux.len() < 3 {
        return Ok(());
    }
    let shape: Vec<usize> = op.aux[0].iter().map(|&s| s.max(0) as usize).collect();
    let ints = &op.aux[1];
    let wints = &op.aux[2];
    let total: usize = shape.iter().product();
    let axis = op.axis;
    if shape.is_empty() || axis >= shape.len() || total == 0 || ints.len() != total || wints.len() != shape[axis] {
        return Ok(());
    }
    let kind = op.aux.get(3).and_then(|a| a.first()).copied().unwrap_or(0);
    let f_order = op.aux.get(4).and_then(|a| a.first()).copied().unwrap_or(0) == 1;
    // 99 encodes a NaN ddof (accepted by the range assertion of the whole-array routines)
    let ddof = match op.idx.first().copied().unwrap_or(0) {
        99 => f64::NAN,
        v => v.min(4) as f64 / 4.0,
    };
    let static_dims = op.idx.get(1).copied().unwrap_or(0) == 1;
    // values are the listed integers times this factor (0.25 keeps every sum exact, the others do not)
    let scale: f64 = [0.25, 0.1, 0.001, 1.0 / 3.0][op.aux.get(5).and_then(|a| a.first()).copied().unwrap_or(0).rem_euclid(4) as usize];
    match kind {
        1 => {
            let a = build(&shape, ints.clone(), f_order);
            let w = Array1::from(wints.clone());
            let sums = a.weighted_sum_axis(Axis(axis), &w).map_err(|e| ("bulk-vs-single:weighted".to_string(), format!("weighted_sum_axis: {:?}", e)))?;
            // integer division by a zero weight sum panics in the whole-array routine too:
            // "equals" then means that both forms panic
            let means = catch_unwind(AssertUnwindSafe(|| a.weighted_mean_axis(Axis(axis), &w))).ok().map(|r| r.map_err(|e| ("bulk-vs-single:weighted".to_string(), format!("weighted_mean_axis: {:?}", e))));
            let means = match means {
                Some(r) => Some(r?),
                None => None,
            };
            let wv = w.view();
            for (l, lane) in a.lanes(Axis(axis)).into_iter().enumerate() {
                let s1 = lane.weighted_sum(&wv).unwrap();
                let m1 = catch_unwind(AssertUnwindSafe(|| lane.weighted_mean(&wv).unwrap())).ok();
                let s2 = *sums.iter().nth(l).unwrap();
                let m2 = means.as_ref().map(|m| *m.iter().nth(l).unwrap());
                if s1 != s2 || m1 != m2 {
                    return Err((
                        "bulk-vs-single:weighted".into(),
                        format!("integer weighted_sum_axis/mean_axis(axis {}) lane {} = ({}, {:?}), the whole-array routines on that lane give ({}, {:?}) (None = panicked; lane {:?}, weights {:?})", axis, l, s2, m2, s1, m1, lane, w),
                    ));
                }
            }
            Ok(())
        }
        2 => float_weighted!(f32, shape, ints, wints, axis, ddof, f_order, static_dims, scale),
        _ => float_weighted!(f64, shape, ints, wints, axis, ddof, f_order, static_dims, scale),
    }
}
