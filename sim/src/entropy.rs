//! The scheduler: entropy policies served to `ThreadRng` through the seam in
//! the patched `rand` crate (`rand::sim`). The simulator only chooses the bits
//! the generator returns; the library maps bits to pivots itself, so every
//! schedule explored is one the shipped code can produce.

use crate::util::Rng;
use serde_json::{json, Value};
use std::cell::RefCell;
use std::panic::{self, AssertUnwindSafe};
use std::rc::Rc;

#[derive(Clone, Copy, Debug, PartialEq, Eq, Hash, PartialOrd, Ord)]
pub enum Kind {
    Uniform,
    Low,
    High,
    Mid,
    AltLH,
    AltHL,
    NearLow,
    NearHigh,
    Sticky,
    Change,
    Script,
}

pub const ALL_KINDS: [Kind; 11] = [
    Kind::Uniform,
    Kind::Low,
    Kind::High,
    Kind::Mid,
    Kind::AltLH,
    Kind::AltHL,
    Kind::NearLow,
    Kind::NearHigh,
    Kind::Sticky,
    Kind::Change,
    Kind::Script,
];

impl Kind {
    pub fn name(self) -> &'static str {
        match self {
            Kind::Uniform => "uniform",
            Kind::Low => "low",
            Kind::High => "high",
            Kind::Mid => "mid",
            Kind::AltLH => "alt_low_high",
            Kind::AltHL => "alt_high_low",
            Kind::NearLow => "near_low",
            Kind::NearHigh => "near_high",
            Kind::Sticky => "sticky",
            Kind::Change => "change_points",
            Kind::Script => "script",
        }
    }
    pub fn from_name(s: &str) -> Option<Kind> {
        ALL_KINDS.iter().copied().find(|k| k.name() == s)
    }
    pub fn index(self) -> usize {
        ALL_KINDS.iter().position(|k| *k == self).unwrap()
    }
}

/// An entropy policy. Deterministic in (kind, seed, param, script).
#[derive(Clone, Debug, PartialEq)]
pub struct Policy {
    pub kind: Kind,
    pub seed: u64,
    /// Sticky: keep-probability in percent; Change: number of deviations;
    /// base policy index for Change is `param2`.
    pub param: u32,
    pub param2: u32,
    /// Script: per-draw entry; a hinted draw uses `entry % range` as the value
    /// to select, an unhinted draw gets `entry` as raw bits. Exhausted => 0.
    pub script: Vec<u64>,
}

impl Policy {
    pub fn simple(kind: Kind, seed: u64) -> Policy {
        Policy { kind, seed, param: 0, param2: 0, script: vec![] }
    }
    pub fn script(s: Vec<u64>) -> Policy {
        Policy { kind: Kind::Script, seed: 0, param: 0, param2: 0, script: s }
    }
    pub fn random(rng: &mut Rng) -> Policy {
        // weights: uniform gets the most, worst-case drivers get a solid share
        const W: [u32; 10] = [30, 10, 10, 6, 7, 7, 8, 8, 7, 7];
        let k = ALL_KINDS[rng.weighted(&W)];
        let mut p = Policy::simple(k, rng.next());
        match k {
            Kind::Sticky => p.param = 50 + rng.below(46) as u32,
            Kind::Change => {
                p.param = 1 + rng.below(3) as u32;
                p.param2 = [Kind::Low, Kind::High, Kind::Mid, Kind::AltLH][rng.below(4)].index() as u32;
            }
            _ => {}
        }
        p
    }
    pub fn to_json(&self) -> Value {
        match self.kind {
            Kind::Script => json!({"kind": "script", "script": self.script}),
            Kind::Sticky | Kind::Change => {
                json!({"kind": self.kind.name(), "seed": self.seed, "param": self.param, "param2": self.param2})
            }
            _ => json!({"kind": self.kind.name(), "seed": self.seed}),
        }
    }
    pub fn from_json(v: &Value) -> Result<Policy, String> {
        let k = v["kind"].as_str().and_then(Kind::from_name).ok_or("bad policy kind")?;
        Ok(Policy {
            kind: k,
            seed: v["seed"].as_u64().unwrap_or(0),
            param: v["param"].as_u64().unwrap_or(0) as u32,
            param2: v["param2"].as_u64().unwrap_or(0) as u32,
            script: v["script"]
                .as_array()
                .map(|a| a.iter().map(|x| x.as_u64().unwrap_or(0)).collect())
                .unwrap_or_default(),
        })
    }
}

#[derive(Clone, Copy, Debug, PartialEq)]
pub struct Draw {
    /// size of the range being sampled, when the draw came from an integer
    /// uniform sampler
    pub hint: Option<u64>,
    /// selected value (hinted) or raw bits (unhinted)
    pub pick: u64,
}

#[derive(Default, Debug)]
pub struct Session {
    pub draws: Vec<Draw>,
    pub budget_hit: bool,
}

impl Session {
    pub fn frozen(&self) -> Policy {
        Policy::script(self.draws.iter().map(|d| d.pick).collect())
    }
}

/// Marker payload: the operation drew more entropy than any terminating
/// selection could need.
pub struct BudgetExceeded;

struct SimSource {
    pol: Policy,
    rng: Rng,
    k: usize,
    budget: usize,
    sticky_frac: f64,
    change_at: Vec<usize>,
    log: Rc<RefCell<Session>>,
}

fn pick_for(kind: Kind, s: &mut SimSource, r: u64) -> u64 {
    match kind {
        Kind::Uniform => s.rng.next() % r,
        Kind::Low => 0,
        Kind::High => r - 1,
        Kind::Mid => r / 2,
        Kind::AltLH => {
            if s.k % 2 == 0 {
                0
            } else {
                r - 1
            }
        }
        Kind::AltHL => {
            if s.k % 2 == 0 {
                r - 1
            } else {
                0
            }
        }
        Kind::NearLow => s.rng.next() % r.min(3),
        Kind::NearHigh => r - 1 - s.rng.next() % r.min(3),
        Kind::Sticky => {
            if s.k == 0 || (s.rng.next() % 100) as u32 >= s.pol.param {
                s.sticky_frac = s.rng.unit();
            }
            ((s.sticky_frac * r as f64) as u64).min(r - 1)
        }
        Kind::Change => {
            if s.change_at.contains(&s.k) {
                s.rng.next() % r
            } else {
                let base = ALL_KINDS[(s.pol.param2 as usize) % 4 + 1];
                let base = match base {
                    Kind::Low | Kind::High | Kind::Mid => base,
                    _ => Kind::AltLH,
                };
                pick_for(base, s, r)
            }
        }
        Kind::Script => s.pol.script.get(s.k).copied().unwrap_or(0) % r,
    }
}

fn raw_for(s: &mut SimSource) -> u64 {
    match s.pol.kind {
        Kind::Low => 0,
        Kind::High => u64::MAX,
        Kind::Script => s.pol.script.get(s.k).copied().unwrap_or(0),
        _ => s.rng.next(),
    }
}

impl rand::sim::Source for SimSource {
    fn next_u64(&mut self, hint: Option<u128>) -> u64 {
        if self.k >= self.budget {
            self.log.borrow_mut().budget_hit = true;
            panic::panic_any(BudgetExceeded);
        }
        let out;
        let rec;
        match hint {
            Some(r) if r >= 1 && r <= u64::MAX as u128 => {
                let r = r as u64;
                let kind = self.pol.kind;
                let p = pick_for(kind, self, r);
                // v = ceil(p * 2^64 / r): the sampler's widening multiply maps
                // it to hi = p, lo < r <= zone, i.e. accepted on the first draw
                let num = (p as u128) << 64;
                let v = (num + (r as u128 - 1)) / r as u128;
                out = v as u64;
                rec = Draw { hint: Some(r), pick: p };
            }
            _ => {
                out = raw_for(self);
                rec = Draw { hint: None, pick: out };
            }
        }
        self.k += 1;
        self.log.borrow_mut().draws.push(rec);
        out
    }
}

thread_local! {
    static LAST_PANIC: RefCell<String> = RefCell::new(String::new());
    static TRACE_ON: std::cell::Cell<bool> = std::cell::Cell::new(false);
    static TRACE: RefCell<Vec<TraceItem>> = RefCell::new(Vec::new());
}

/// Optional recording of every entropy session, used by the minimiser and by
/// replay files (draws nothing, reads no clock).
#[derive(Clone, Debug)]
pub enum TraceItem {
    Mark(usize),
    Session(Vec<Draw>),
}

pub fn trace_enable(on: bool) {
    TRACE_ON.with(|t| t.set(on));
    TRACE.with(|t| t.borrow_mut().clear());
}

pub fn trace_mark(op_index: usize) {
    if TRACE_ON.with(|t| t.get()) {
        TRACE.with(|t| t.borrow_mut().push(TraceItem::Mark(op_index)));
    }
}

pub fn trace_take() -> Vec<TraceItem> {
    TRACE.with(|t| std::mem::take(&mut *t.borrow_mut()))
}

pub fn last_panic_message() -> String {
    LAST_PANIC.with(|m| m.borrow().clone())
}

/// Install a process-wide silent panic hook that remembers the message
/// per thread (no output, no clock, no entropy).
pub fn install_quiet_hook() {
    panic::set_hook(Box::new(|info| {
        let msg = if let Some(s) = info.payload().downcast_ref::<&str>() {
            s.to_string()
        } else if let Some(s) = info.payload().downcast_ref::<String>() {
            s.clone()
        } else if info.payload().is::<BudgetExceeded>() {
            "entropy budget exceeded".to_string()
        } else {
            "non-string panic payload".to_string()
        };
        let loc = info.location().map(|l| format!(" at {}:{}", l.file(), l.line())).unwrap_or_default();
        LAST_PANIC.with(|m| *m.borrow_mut() = format!("{}{}", msg, loc));
    }));
}

pub enum Outcome<R> {
    Done(R),
    Panicked(String),
    NoProgress,
}

impl<R> Outcome<R> {
    pub fn is_done(&self) -> bool {
        matches!(self, Outcome::Done(_))
    }
}

/// Run `f` with `policy` installed as this thread's entropy.
pub fn with_policy<R>(policy: &Policy, budget: usize, f: impl FnOnce() -> R) -> (Outcome<R>, Session) {
    let log = Rc::new(RefCell::new(Session::default()));
    let mut rng = Rng::new(policy.seed ^ 0x5151_5151);
    let mut change_at = vec![];
    if policy.kind == Kind::Change {
        for _ in 0..policy.param {
            change_at.push(rng.below(24));
        }
    }
    let src = SimSource {
        pol: policy.clone(),
        rng,
        k: 0,
        budget,
        sticky_frac: 0.0,
        change_at,
        log: log.clone(),
    };
    rand::sim::install(Box::new(src));
    let r = panic::catch_unwind(AssertUnwindSafe(f));
    drop(rand::sim::uninstall());
    let sess = Rc::try_unwrap(log).map(|c| c.into_inner()).unwrap_or_default();
    if TRACE_ON.with(|t| t.get()) {
        TRACE.with(|t| t.borrow_mut().push(TraceItem::Session(sess.draws.clone())));
    }
    let out = match r {
        Ok(v) => Outcome::Done(v),
        Err(p) => {
            if p.is::<BudgetExceeded>() || sess.budget_hit {
                Outcome::NoProgress
            } else {
                Outcome::Panicked(last_panic_message())
            }
        }
    };
    (out, sess)
}
