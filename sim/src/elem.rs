//! Element types: mapping between the raw i64 encoding used in scenarios and
//! the real Rust types the library is instantiated with.

use crate::scenario::ElemTy;
use ndarray_stats::MaybeNan;
use noisy_float::types::{n32, n64, N32, N64};
use num_traits::{FromPrimitive, NumOps, ToPrimitive};
use std::fmt::Debug;

/// Numeric value of an element, for arithmetic oracles.
#[derive(Clone, Copy, Debug, PartialEq)]
pub enum NumVal {
    I(i128),
    F(f64),
}

impl NumVal {
    pub fn as_f64(self) -> f64 {
        match self {
            NumVal::I(i) => i as f64,
            NumVal::F(f) => f,
        }
    }
    pub fn num_eq(self, o: NumVal) -> bool {
        match (self, o) {
            (NumVal::I(a), NumVal::I(b)) => a == b,
            (NumVal::F(a), NumVal::F(b)) => a == b,
            _ => false,
        }
    }
    pub fn le(self, o: NumVal) -> bool {
        match (self, o) {
            (NumVal::I(a), NumVal::I(b)) => a <= b,
            _ => self.as_f64() <= o.as_f64(),
        }
    }
}

pub trait Elem: Clone + Debug + PartialEq + 'static {
    const TY: ElemTy;
    fn from_raw(r: i64) -> Self;
    fn to_raw(&self) -> i64;
}

/// Types the `Ord`-based routines are instantiated with.
pub trait OrdElem: Elem + Ord + NumOps + FromPrimitive + ToPrimitive {
    fn num(&self) -> NumVal;
}

macro_rules! int_elem {
    ($t:ty, $ty:expr) => {
        impl Elem for $t {
            const TY: ElemTy = $ty;
            fn from_raw(r: i64) -> Self {
                r as $t
            }
            fn to_raw(&self) -> i64 {
                *self as i64
            }
        }
        impl OrdElem for $t {
            fn num(&self) -> NumVal {
                NumVal::I(*self as i128)
            }
        }
    };
}
int_elem!(i8, ElemTy::I8);
int_elem!(i32, ElemTy::I32);
int_elem!(i64, ElemTy::I64);
int_elem!(u8, ElemTy::U8);
int_elem!(u64, ElemTy::U64);

impl Elem for N64 {
    const TY: ElemTy = ElemTy::N64;
    fn from_raw(r: i64) -> Self {
        n64(f64::from_bits(r as u64))
    }
    fn to_raw(&self) -> i64 {
        self.raw().to_bits() as i64
    }
}
impl OrdElem for N64 {
    fn num(&self) -> NumVal {
        NumVal::F(self.raw())
    }
}

impl Elem for N32 {
    const TY: ElemTy = ElemTy::F32;
    fn from_raw(r: i64) -> Self {
        n32(f32::from_bits(r as u32))
    }
    fn to_raw(&self) -> i64 {
        self.raw().to_bits() as i64
    }
}
impl OrdElem for N32 {
    fn num(&self) -> NumVal {
        NumVal::F(self.raw() as f64)
    }
}

impl Elem for f64 {
    const TY: ElemTy = ElemTy::F64;
    fn from_raw(r: i64) -> Self {
        f64::from_bits(r as u64)
    }
    fn to_raw(&self) -> i64 {
        self.to_bits() as i64
    }
}
impl Elem for f32 {
    const TY: ElemTy = ElemTy::F32;
    fn from_raw(r: i64) -> Self {
        f32::from_bits(r as u32)
    }
    fn to_raw(&self) -> i64 {
        self.to_bits() as i64
    }
}
impl Elem for Option<i32> {
    const TY: ElemTy = ElemTy::OptI32;
    fn from_raw(r: i64) -> Self {
        if r == i64::MIN {
            None
        } else {
            Some(r as i32)
        }
    }
    fn to_raw(&self) -> i64 {
        match self {
            None => i64::MIN,
            Some(v) => *v as i64,
        }
    }
}
impl Elem for Option<u8> {
    const TY: ElemTy = ElemTy::OptU8;
    fn from_raw(r: i64) -> Self {
        if r == i64::MIN {
            None
        } else {
            Some(r as u8)
        }
    }
    fn to_raw(&self) -> i64 {
        match self {
            None => i64::MIN,
            Some(v) => *v as i64,
        }
    }
}

/// Types the NaN-skipping routines are instantiated with.
pub trait NanElem: Elem + MaybeNan
where
    Self::NotNan: Ord + Clone + Debug + NumOps + FromPrimitive + ToPrimitive,
{
    /// the plain `Ord` type holding the same values without the missing one
    type Plain: OrdElem;
    fn missing(&self) -> bool;
    /// raw encoding (in Self's encoding) of a not-missing value
    fn nn_raw(x: &Self::NotNan) -> i64;
    /// Was this reference handed out as "not NaN" actually a missing value?
    /// (Reads the value through the raw encoding, never through the typed API.)
    fn nn_is_missing(x: &Self::NotNan) -> bool {
        Self::TY.is_missing_raw(Self::nn_raw(x))
    }
    fn plain_of_raw(r: i64) -> Self::Plain;
    fn raw_of_plain(p: &Self::Plain) -> i64;
}

impl NanElem for f64 {
    type Plain = N64;
    fn missing(&self) -> bool {
        self.is_nan()
    }
    fn nn_raw(x: &N64) -> i64 {
        // N64 is a transparent wrapper; read the bits without the checked API
        let p = x as *const N64 as *const u64;
        (unsafe { *p }) as i64
    }
    fn plain_of_raw(r: i64) -> N64 {
        n64(f64::from_bits(r as u64))
    }
    fn raw_of_plain(p: &N64) -> i64 {
        p.raw().to_bits() as i64
    }
}

impl NanElem for f32 {
    type Plain = N32;
    fn missing(&self) -> bool {
        self.is_nan()
    }
    fn nn_raw(x: &N32) -> i64 {
        let p = x as *const N32 as *const u32;
        (unsafe { *p }) as i64
    }
    fn plain_of_raw(r: i64) -> N32 {
        n32(f32::from_bits(r as u32))
    }
    fn raw_of_plain(p: &N32) -> i64 {
        p.raw().to_bits() as i64
    }
}

macro_rules! opt_elem {
    ($t:ty) => {
        impl NanElem for Option<$t> {
            type Plain = $t;
            fn missing(&self) -> bool {
                self.is_none()
            }
            fn nn_raw(x: &<Option<$t> as MaybeNan>::NotNan) -> i64 {
                // NotNone<T> is repr(transparent) over Option<T>; look at the
                // Option itself so that a None smuggled into a NotNone is seen
                // instead of triggering unreachable_unchecked
                let p = x as *const <Option<$t> as MaybeNan>::NotNan as *const Option<$t>;
                match unsafe { &*p } {
                    None => i64::MIN,
                    Some(v) => *v as i64,
                }
            }
            fn plain_of_raw(r: i64) -> $t {
                r as $t
            }
            fn raw_of_plain(p: &$t) -> i64 {
                *p as i64
            }
        }
    };
}
opt_elem!(i32);
opt_elem!(u8);
int_elem!(i128, ElemTy::OptI128);
int_elem!(u16, ElemTy::OptU16);
macro_rules! opt_elem_full {
    ($t:ty, $ty:expr) => {
        impl Elem for Option<$t> {
            const TY: ElemTy = $ty;
            fn from_raw(r: i64) -> Self {
                if r == i64::MIN {
                    None
                } else {
                    Some(r as $t)
                }
            }
            fn to_raw(&self) -> i64 {
                match self {
                    None => i64::MIN,
                    Some(v) => *v as i64,
                }
            }
        }
        opt_elem!($t);
    };
}
opt_elem_full!(i64, ElemTy::OptI64);
opt_elem_full!(i128, ElemTy::OptI128);
opt_elem_full!(u16, ElemTy::OptU16);


impl Elem for Option<N64> {
    const TY: ElemTy = ElemTy::OptN64;
    fn from_raw(r: i64) -> Self {
        let x = f64::from_bits(r as u64);
        if x.is_nan() {
            None
        } else {
            Some(n64(x))
        }
    }
    fn to_raw(&self) -> i64 {
        match self {
            None => f64::NAN.to_bits() as i64,
            Some(v) => v.raw().to_bits() as i64,
        }
    }
}

impl NanElem for Option<N64> {
    type Plain = N64;
    fn missing(&self) -> bool {
        self.is_none()
    }
    fn nn_raw(x: &<Option<N64> as MaybeNan>::NotNan) -> i64 {
        let p = x as *const <Option<N64> as MaybeNan>::NotNan as *const Option<N64>;
        match unsafe { &*p } {
            None => f64::NAN.to_bits() as i64,
            Some(v) => v.raw().to_bits() as i64,
        }
    }
    fn plain_of_raw(r: i64) -> N64 {
        n64(f64::from_bits(r as u64))
    }
    fn raw_of_plain(p: &N64) -> i64 {
        p.raw().to_bits() as i64
    }
}

/// A record ordered by its key only: two elements can compare equal and still
/// be different elements. Arithmetic acts on the key and keeps the left tag.
#[derive(Clone, Copy, Debug)]
pub struct Keyed {
    pub key: i32,
    pub tag: u32,
}
impl PartialEq for Keyed {
    fn eq(&self, o: &Keyed) -> bool {
        self.key == o.key
    }
}
impl Eq for Keyed {}
impl PartialOrd for Keyed {
    fn partial_cmp(&self, o: &Keyed) -> Option<std::cmp::Ordering> {
        Some(self.cmp(o))
    }
}
impl Ord for Keyed {
    fn cmp(&self, o: &Keyed) -> std::cmp::Ordering {
        self.key.cmp(&o.key)
    }
}
macro_rules! keyed_op {
    ($tr:ident, $f:ident, $w:ident) => {
        impl std::ops::$tr for Keyed {
            type Output = Keyed;
            fn $f(self, o: Keyed) -> Keyed {
                Keyed { key: self.key.$w(o.key), tag: self.tag }
            }
        }
    };
}
keyed_op!(Add, add, wrapping_add);
keyed_op!(Sub, sub, wrapping_sub);
keyed_op!(Mul, mul, wrapping_mul);
impl std::ops::Div for Keyed {
    type Output = Keyed;
    fn div(self, o: Keyed) -> Keyed {
        Keyed { key: if o.key == 0 { 0 } else { self.key.wrapping_div(o.key) }, tag: self.tag }
    }
}
impl std::ops::Rem for Keyed {
    type Output = Keyed;
    fn rem(self, o: Keyed) -> Keyed {
        Keyed { key: if o.key == 0 { 0 } else { self.key.wrapping_rem(o.key) }, tag: self.tag }
    }
}
impl FromPrimitive for Keyed {
    fn from_i64(n: i64) -> Option<Keyed> {
        Some(Keyed { key: n as i32, tag: 0 })
    }
    fn from_u64(n: u64) -> Option<Keyed> {
        Some(Keyed { key: n as i32, tag: 0 })
    }
}
impl ToPrimitive for Keyed {
    fn to_i64(&self) -> Option<i64> {
        Some(self.key as i64)
    }
    fn to_u64(&self) -> Option<u64> {
        Some(self.key as u64)
    }
}
impl Elem for Keyed {
    const TY: ElemTy = ElemTy::Keyed;
    fn from_raw(r: i64) -> Self {
        Keyed { key: (r >> 32) as i32, tag: (r & 0xffff_ffff) as u32 }
    }
    fn to_raw(&self) -> i64 {
        ((self.key as i64) << 32) | self.tag as i64
    }
}
impl OrdElem for Keyed {
    fn num(&self) -> NumVal {
        NumVal::I(self.key as i128)
    }
}

/// An element with drop glue: `std::mem::needs_drop::<Boxed>()` is true.
#[derive(Clone, Debug, PartialEq, Eq, PartialOrd, Ord)]
pub struct Boxed(pub Box<i64>);
macro_rules! boxed_op {
    ($tr:ident, $f:ident, $w:ident) => {
        impl std::ops::$tr for Boxed {
            type Output = Boxed;
            fn $f(self, o: Boxed) -> Boxed {
                Boxed(Box::new((*self.0).$w(*o.0)))
            }
        }
    };
}
boxed_op!(Add, add, wrapping_add);
boxed_op!(Sub, sub, wrapping_sub);
boxed_op!(Mul, mul, wrapping_mul);
impl std::ops::Div for Boxed {
    type Output = Boxed;
    fn div(self, o: Boxed) -> Boxed {
        Boxed(Box::new(if *o.0 == 0 { 0 } else { (*self.0).wrapping_div(*o.0) }))
    }
}
impl std::ops::Rem for Boxed {
    type Output = Boxed;
    fn rem(self, o: Boxed) -> Boxed {
        Boxed(Box::new(if *o.0 == 0 { 0 } else { (*self.0).wrapping_rem(*o.0) }))
    }
}
impl FromPrimitive for Boxed {
    fn from_i64(n: i64) -> Option<Boxed> {
        Some(Boxed(Box::new(n)))
    }
    fn from_u64(n: u64) -> Option<Boxed> {
        i64::try_from(n).ok().map(|v| Boxed(Box::new(v)))
    }
}
impl ToPrimitive for Boxed {
    fn to_i64(&self) -> Option<i64> {
        Some(*self.0)
    }
    fn to_u64(&self) -> Option<u64> {
        u64::try_from(*self.0).ok()
    }
}
impl Elem for Boxed {
    const TY: ElemTy = ElemTy::Boxed;
    fn from_raw(r: i64) -> Self {
        Boxed(Box::new(r))
    }
    fn to_raw(&self) -> i64 {
        *self.0
    }
}
impl OrdElem for Boxed {
    fn num(&self) -> NumVal {
        NumVal::I(*self.0 as i128)
    }
}

/// A large element (96 bytes) without drop glue. The padding is a function of
/// the value, so a torn or half-copied element is recognisable.
#[derive(Clone, Copy, Debug)]
pub struct Fat {
    pub v: i64,
    pub pad: [u64; 11],
}
impl Fat {
    pub fn new(v: i64) -> Fat {
        let mut pad = [0u64; 11];
        for (k, p) in pad.iter_mut().enumerate() {
            *p = (v as u64) ^ (0x9E37_79B9_7F4A_7C15u64.wrapping_mul(k as u64 + 1));
        }
        Fat { v, pad }
    }
    fn intact(&self) -> bool {
        let f = Fat::new(self.v);
        f.pad == self.pad
    }
}
impl PartialEq for Fat {
    fn eq(&self, o: &Fat) -> bool {
        self.v == o.v
    }
}
impl Eq for Fat {}
impl PartialOrd for Fat {
    fn partial_cmp(&self, o: &Fat) -> Option<std::cmp::Ordering> {
        Some(self.cmp(o))
    }
}
impl Ord for Fat {
    fn cmp(&self, o: &Fat) -> std::cmp::Ordering {
        self.v.cmp(&o.v)
    }
}
macro_rules! fat_op {
    ($tr:ident, $f:ident, $w:ident) => {
        impl std::ops::$tr for Fat {
            type Output = Fat;
            fn $f(self, o: Fat) -> Fat {
                Fat::new(self.v.$w(o.v))
            }
        }
    };
}
fat_op!(Add, add, wrapping_add);
fat_op!(Sub, sub, wrapping_sub);
fat_op!(Mul, mul, wrapping_mul);
impl std::ops::Div for Fat {
    type Output = Fat;
    fn div(self, o: Fat) -> Fat {
        Fat::new(if o.v == 0 { 0 } else { self.v.wrapping_div(o.v) })
    }
}
impl std::ops::Rem for Fat {
    type Output = Fat;
    fn rem(self, o: Fat) -> Fat {
        Fat::new(if o.v == 0 { 0 } else { self.v.wrapping_rem(o.v) })
    }
}
impl FromPrimitive for Fat {
    fn from_i64(n: i64) -> Option<Fat> {
        Some(Fat::new(n))
    }
    fn from_u64(n: u64) -> Option<Fat> {
        i64::try_from(n).ok().map(Fat::new)
    }
}
impl ToPrimitive for Fat {
    fn to_i64(&self) -> Option<i64> {
        Some(self.v)
    }
    fn to_u64(&self) -> Option<u64> {
        u64::try_from(self.v).ok()
    }
}
impl Elem for Fat {
    const TY: ElemTy = ElemTy::Fat;
    fn from_raw(r: i64) -> Self {
        Fat::new(r)
    }
    fn to_raw(&self) -> i64 {
        // a torn element shows up as a value no generator produces
        if self.intact() {
            self.v
        } else {
            i64::MIN + 0x7A7
        }
    }
}
impl OrdElem for Fat {
    fn num(&self) -> NumVal {
        NumVal::I(self.v as i128)
    }
}

/// An element whose `Ord::cmp` makes a (tiny) bulk selection of its own before
/// comparing: the library is re-entered on the same thread while an outer call
/// is in progress, as happens with element types that summarise a series.
#[derive(Clone, Copy, Debug)]
pub struct Reent(pub i64);
thread_local! {
    static REENT_DEPTH: std::cell::Cell<u32> = std::cell::Cell::new(0);
}
fn reenter(seed: i64) {
    use ndarray_stats::Sort1dExt;
    let nested = REENT_DEPTH.with(|d| {
        let v = d.get();
        d.set(v + 1);
        v
    });
    if nested == 0 {
        let k = (seed & 3) as i32;
        let mut a = ndarray::arr1(&[3 + k, 1, 2, 5, 4]);
        let m = a.get_many_from_sorted_mut(&ndarray::arr1(&[0usize, 4, 2]));
        // the nested call must itself be right
        assert!(m[&0] == 1 && (m[&2] == 3 || m[&2] == 4) && m[&4] == 5.max(3 + k), "nested bulk selection returned {:?}", m);
    }
    REENT_DEPTH.with(|d| d.set(d.get() - 1));
}
impl PartialEq for Reent {
    fn eq(&self, o: &Reent) -> bool {
        self.0 == o.0
    }
}
impl Eq for Reent {}
impl PartialOrd for Reent {
    fn partial_cmp(&self, o: &Reent) -> Option<std::cmp::Ordering> {
        Some(self.cmp(o))
    }
}
impl Ord for Reent {
    fn cmp(&self, o: &Reent) -> std::cmp::Ordering {
        reenter(self.0 ^ o.0);
        self.0.cmp(&o.0)
    }
}
macro_rules! reent_op {
    ($tr:ident, $f:ident, $w:ident) => {
        impl std::ops::$tr for Reent {
            type Output = Reent;
            fn $f(self, o: Reent) -> Reent {
                Reent(self.0.$w(o.0))
            }
        }
    };
}
reent_op!(Add, add, wrapping_add);
reent_op!(Sub, sub, wrapping_sub);
reent_op!(Mul, mul, wrapping_mul);
impl std::ops::Div for Reent {
    type Output = Reent;
    fn div(self, o: Reent) -> Reent {
        Reent(if o.0 == 0 { 0 } else { self.0.wrapping_div(o.0) })
    }
}
impl std::ops::Rem for Reent {
    type Output = Reent;
    fn rem(self, o: Reent) -> Reent {
        Reent(if o.0 == 0 { 0 } else { self.0.wrapping_rem(o.0) })
    }
}
impl FromPrimitive for Reent {
    fn from_i64(n: i64) -> Option<Reent> {
        Some(Reent(n))
    }
    fn from_u64(n: u64) -> Option<Reent> {
        i64::try_from(n).ok().map(Reent)
    }
}
impl ToPrimitive for Reent {
    fn to_i64(&self) -> Option<i64> {
        Some(self.0)
    }
    fn to_u64(&self) -> Option<u64> {
        u64::try_from(self.0).ok()
    }
}
impl Elem for Reent {
    const TY: ElemTy = ElemTy::Reent;
    fn from_raw(r: i64) -> Self {
        Reent(r)
    }
    fn to_raw(&self) -> i64 {
        self.0
    }
}
impl OrdElem for Reent {
    fn num(&self) -> NumVal {
        NumVal::I(self.0 as i128)
    }
}

/// A zero-sized element: every element equals every other one.
#[derive(Clone, Copy, Debug, PartialEq, Eq, PartialOrd, Ord)]
pub struct Zst;
macro_rules! zst_op {
    ($tr:ident, $f:ident) => {
        impl std::ops::$tr for Zst {
            type Output = Zst;
            fn $f(self, _o: Zst) -> Zst {
                Zst
            }
        }
    };
}
zst_op!(Add, add);
zst_op!(Sub, sub);
zst_op!(Mul, mul);
zst_op!(Div, div);
zst_op!(Rem, rem);
impl FromPrimitive for Zst {
    fn from_i64(_n: i64) -> Option<Zst> {
        Some(Zst)
    }
    fn from_u64(_n: u64) -> Option<Zst> {
        Some(Zst)
    }
}
impl ToPrimitive for Zst {
    fn to_i64(&self) -> Option<i64> {
        Some(0)
    }
    fn to_u64(&self) -> Option<u64> {
        Some(0)
    }
}
impl Elem for Zst {
    const TY: ElemTy = ElemTy::Zst;
    fn from_raw(_r: i64) -> Self {
        Zst
    }
    fn to_raw(&self) -> i64 {
        0
    }
}
impl OrdElem for Zst {
    fn num(&self) -> NumVal {
        NumVal::I(0)
    }
}

/// numeric value of a raw encoding, for reference computations
pub fn num_of_raw(ty: ElemTy, raw: i64) -> NumVal {
    match ty {
        ElemTy::N64 | ElemTy::F64 | ElemTy::OptN64 => NumVal::F(f64::from_bits(raw as u64)),
        ElemTy::F32 => NumVal::F(f32::from_bits(raw as u32) as f64),
        ElemTy::U64 => NumVal::I(raw as u64 as i128),
        ElemTy::Keyed => NumVal::I((raw >> 32) as i128),
        ElemTy::Zst => NumVal::I(0),
        _ => NumVal::I(raw as i128),
    }
}
