//! Scenarios over element types with a missing value (f64, f32, Option<int>):
//! NaN removal, NaN-skipping quantiles, lane maps, folds and extrema.
//! Oracles: C03 (only permute the lanes given) and C14 (equal to the plain
//! operation on the data with the missing values deleted).

use crate::elem::{num_of_raw, Elem, NanElem, NumVal, OrdElem};
use crate::entropy::{with_policy, Outcome, Policy};
use crate::exec::{budget, lane_cells, lane_view, note_case, usize_list, Prop};
use crate::reference::check_quantile;
use crate::scenario::{Op, Scenario, Strat};
use crate::stats::{Ctx, RunResult};
use crate::util::mix;
use crate::world::{check_permutation_only, World};
use crate::{with_dim, with_strat};
use ndarray::{Array1, ArrayD, ArrayView, ArrayViewMut, ArrayViewMut1, Axis, Dimension, IntoDimension, Ix1, Ix2, Ix3, Ix4, IxDyn, RemoveAxis};
use ndarray_stats::interpolate::{Higher, Linear, Lower, Midpoint, Nearest};
use ndarray_stats::{MaybeNan, MaybeNanExt, Quantile1dExt, QuantileExt, Sort1dExt};
use noisy_float::types::n64;
use num_traits::{FromPrimitive, NumOps, ToPrimitive};
use std::fmt::Debug;

pub trait NnBounds: Ord + Clone + Debug + NumOps + FromPrimitive + ToPrimitive {}
impl<X: Ord + Clone + Debug + NumOps + FromPrimitive + ToPrimitive> NnBounds for X {}

fn derive(p: &Policy, k: u64) -> Policy {
    let mut q = p.clone();
    q.seed = mix(p.seed, k.wrapping_add(1));
    q
}

/// the operation applied through a stripped (not-NaN) view
fn apply_inner<NN: NnBounds>(mut nn: ArrayViewMut1<'_, NN>, op: &Op) {
    let len = nn.len();
    if len == 0 {
        return;
    }
    match op.inner.as_str() {
        "select" => {
            let i = op.idx.first().copied().unwrap_or(0) as usize % len;
            let _ = nn.get_from_sorted_mut(i);
        }
        "partition" => {
            let p = op.idx.first().copied().unwrap_or(0) as usize % len;
            let _ = nn.partition_mut(p);
        }
        "select_many" => {
            let idx: Vec<u64> = op.idx.iter().map(|&i| i % len as u64).collect();
            let arr = usize_list(&idx, op.form);
            let _ = nn.get_many_from_sorted_mut(&arr.view());
        }
        "quantile" => {
            let q = n64(op.qs.first().copied().unwrap_or(0.5).clamp(0.0, 1.0));
            // selecting strategies only: interpolation through the stripped view is covered by quantile_axis_skipnan
            let s = if op.strat.selecting() { op.strat } else { Strat::Nearest };
            let _ = with_strat!(s, i => nn.quantile_mut(q, i));
        }
        _ => {}
    }
}

fn filtered(ty: crate::scenario::ElemTy, raws: &[i64]) -> Vec<i64> {
    raws.iter().copied().filter(|&r| !ty.is_missing_raw(r)).collect()
}

fn sorted_copy(mut v: Vec<i64>) -> Vec<i64> {
    v.sort_unstable();
    v
}

pub fn exec_nan<T: NanElem>(scn: &Scenario, prop: Prop) -> RunResult
where
    T::NotNan: NnBounds,
{
    let mut cx = Ctx::new();
    *cx.stats.elem_hist.entry(T::TY.name()).or_insert(0) += 1;
    let mut w = World::<T>::build(scn);
    if w.desc.slices.iter().any(|s| s.2 != 1) {
        cx.stats.probe("view_stepped_or_reversed");
    }
    if w.idx.len() < w.parent_len() {
        cx.stats.probe("view_has_guard_cells");
    }
    for (k, op) in scn.ops.iter().enumerate() {
        cx.op_index = k;
        crate::entropy::trace_mark(k);
        cx.dg.evs(&op.name);
        cx.stats.ops += 1;
        *cx.stats.op_hist.entry(op.name.clone()).or_insert(0) += 1;
        match op.name.as_str() {
            "remove_nan" => op_remove_nan(&mut cx, scn, &mut w, op, prop),
            "quantile_axis_skipnan" => op_quantile_skipnan(&mut cx, scn, &mut w, op, prop),
            "map_axis_skipnan" => op_map_axis(&mut cx, scn, &mut w, op, prop),
            "fold_skipnan" | "indexed_fold_skipnan" | "visit_skipnan" | "fold_axis_skipnan" | "min_skipnan" | "max_skipnan" | "argmin_skipnan" | "argmax_skipnan" => {
                op_readonly(&mut cx, scn, &mut w, op, prop)
            }
            _ => {}
        }
        for x in w.parent_cells().iter() {
            cx.dg.evi(x.to_raw());
        }
        if prop == Prop::C03 {
            if let Some(d) = w.padding_damage() {
                cx.fail("wrote-outside-parent", format!("{}: {}", op.name, d));
                break;
            }
        }
    }
    cx.finish()
}

fn note_missing(cx: &mut Ctx, ty: crate::scenario::ElemTy, pre: &[i64]) {
    let m = pre.iter().filter(|&&r| ty.is_missing_raw(r)).count();
    if m > 0 {
        cx.stats.fault("missing_values");
    }
    if m == pre.len() && !pre.is_empty() {
        cx.stats.probe("all_missing_lane");
    }
    if m == 0 {
        cx.stats.probe("no_missing_lane");
    }
    if m == 1 && pre.first().map(|&r| ty.is_missing_raw(r)).unwrap_or(false) {
        cx.stats.probe("only_first_missing");
    }
    if m == 1 && pre.last().map(|&r| ty.is_missing_raw(r)).unwrap_or(false) {
        cx.stats.probe("only_last_missing");
    }
}

fn op_remove_nan<T: NanElem>(cx: &mut Ctx, scn: &Scenario, w: &mut World<T>, op: &Op, prop: Prop)
where
    T::NotNan: NnBounds,
{
    let cells = match lane_cells(w, op.lane) {
        Some(c) => c,
        None => return,
    };
    let n = cells.len();
    let before = w.snapshot();
    let pre: Vec<i64> = cells.iter().map(|&c| before[c]).collect();
    note_missing(cx, scn.elem, &pre);
    let lane = op.lane;
    let (out, sess) = with_policy(&op.policy, budget(n) + 64 * op.idx.len(), || {
        let v = lane_view(w.view_mut(), lane);
        let nn = T::remove_nan_mut(v);
        let seen: Vec<i64> = nn.iter().map(|x| T::nn_raw(x)).collect();
        let bad = nn.iter().any(|x| T::nn_is_missing(x));
        if !bad {
            apply_inner(nn, op);
        }
        (seen, bad)
    });
    note_case(cx, scn.elem, "remove_nan", &pre, &op.idx, &op.policy, &sess);
    let after = w.snapshot();
    match &out {
        Outcome::Done((seen, bad)) => {
            for &s in seen {
                cx.dg.evi(s);
            }
            if *bad {
                cx.stats.probe("stripped_view_contained_missing_value");
            }
        }
        _ => {}
    }
    match prop {
        Prop::C03 => {
            if let Err(e) = check_permutation_only(&before, &after, &[cells.clone()]) {
                cx.fail("not-a-permutation:remove_nan", format!("remove_nan_mut then {} through the returned view: {}", if op.inner.is_empty() { "nothing" } else { &op.inner }, e));
            }
        }
        Prop::C14 => {
            // what a closure of map_axis_skipnan_mut would see for this lane
            if let Outcome::Done((seen, _)) = &out {
                let want = sorted_copy(filtered(scn.elem, &pre));
                if sorted_copy(seen.clone()) != want {
                    cx.fail(
                        "skipnan-lane-contents",
                        format!("remove_nan_mut on lane {:?} yields {:?}, the non-missing elements are {:?}", pretty(scn, &pre), pretty(scn, seen), pretty(scn, &want)),
                    );
                }
            }
        }
        _ => {}
    }
}

fn pretty(scn: &Scenario, raws: &[i64]) -> Vec<String> {
    raws.iter().map(|&r| scn.elem.pretty(r)).collect()
}

fn nd_skipnan<T: NanElem, D: Dimension + RemoveAxis>(mut v: ArrayViewMut<'_, T, D>, axis: usize, q: f64, strat: Strat) -> Result<ArrayD<T>, String>
where
    T::NotNan: NnBounds,
{
    with_strat!(strat, i => v.quantile_axis_skipnan_mut(Axis(axis), n64(q), i)).map(|a| a.into_dyn()).map_err(|e| format!("{:?}", e))
}

fn op_quantile_skipnan<T: NanElem>(cx: &mut Ctx, scn: &Scenario, w: &mut World<T>, op: &Op, prop: Prop)
where
    T::NotNan: NnBounds,
{
    if op.axis >= w.idx.ndim() || op.qs.is_empty() {
        return;
    }
    let q = op.qs[0];
    if q.is_nan() {
        return;
    }
    let lanes = w.lanes(op.axis);
    let n = w.view_shape()[op.axis];
    if n == 0 || !(0.0..=1.0).contains(&q) {
        // error paths: the NaN-skipping form must fail exactly like the plain form does on the same request
        if prop == Prop::C14 {
            error_agreement(cx, scn, w, op, q);
        }
        return;
    }
    if lanes.is_empty() {
        cx.stats.probe("quantile_of_array_without_lanes");
    }
    let ty = scn.elem;
    let before = w.snapshot();
    let total: usize = lanes.iter().map(|l| l.len()).sum();
    let bud = budget(total) + 128 * lanes.len();
    let (axis, strat, sd) = (op.axis, op.strat, scn.static_dim);
    let (out, sess) = with_policy(&op.policy, bud, || with_dim!(w.view_mut(), sd, |vv| nd_skipnan(vv, axis, q, strat)));
    let all_pre: Vec<i64> = lanes.iter().flat_map(|l| l.iter().map(|&c| before[c])).collect();
    note_case(cx, ty, "quantile_axis_skipnan", &all_pre, &[q.to_bits(), strat as u64, axis as u64], &op.policy, &sess);
    let after = w.snapshot();
    if prop == Prop::C03 {
        if let Err(e) = check_permutation_only(&before, &after, &lanes) {
            cx.fail("not-a-permutation:quantile_axis_skipnan", format!("quantile_axis_skipnan_mut axis {}: {}", axis, e));
        }
        return;
    }
    if prop != Prop::C14 {
        return;
    }
    let mut want_shape = w.view_shape();
    want_shape.remove(axis);
    let res: Option<ArrayD<T>> = match out {
        Outcome::Done(Ok(r)) => Some(r),
        Outcome::Done(Err(e)) => {
            cx.fail("skipnan-quantile-error", format!("quantile_axis_skipnan_mut with valid q={:?} on lanes of length {} returned Err({})", q, n, e));
            return;
        }
        Outcome::Panicked(_) => None,
        Outcome::NoProgress => {
            cx.fail("no-progress", "quantile_axis_skipnan_mut did not complete".into());
            return;
        }
    };
    if let Some(r) = &res {
        if r.shape() != want_shape.as_slice() {
            cx.fail("skipnan-quantile-shape", format!("quantile_axis_skipnan_mut returned shape {:?}, expected {:?}", r.shape(), want_shape));
            return;
        }
    }
    // the plain operation on each lane with the missing values deleted
    let mut plain_panicked = false;
    let res_flat: Option<Vec<T>> = res.as_ref().map(|r| r.iter().cloned().collect());
    for (l, lane) in lanes.iter().enumerate() {
        let pre: Vec<i64> = lane.iter().map(|&c| before[c]).collect();
        note_missing(cx, ty, &pre);
        let kept = filtered(ty, &pre);
        let got: Option<T> = res_flat.as_ref().map(|r| r[l].clone());
        if kept.is_empty() {
            if let Some(g) = &got {
                if !g.missing() {
                    cx.fail("skipnan-empty-lane", format!("lane {} has only missing values but the skip-NaN quantile is {:?}", l, g));
                    return;
                }
            }
            continue;
        }
        let mut plain: Array1<T::Plain> = Array1::from(kept.iter().map(|&r| T::plain_of_raw(r)).collect::<Vec<_>>());
        let pol = derive(&op.alt, l as u64);
        let (o2, s2) = with_policy(&pol, budget(kept.len()), || with_strat!(strat, i => plain.quantile_mut(n64(q), i)));
        cx.note_draws(pol.kind, &s2.draws);
        match (o2, &got) {
            (Outcome::Done(Ok(p)), Some(g)) => {
                let want_raw = T::raw_of_plain(&p);
                let ok = !g.missing() && num_of_raw(ty, g.to_raw()).num_eq(num_of_raw(ty, want_raw));
                if !ok {
                    cx.fail(
                        "skipnan-vs-plain:quantile",
                        format!("lane {} = {:?}: quantile_axis_skipnan_mut(q={:?}, {}) gives {:?}, the plain quantile of the non-missing elements {:?} is {:?}", l, pretty(scn, &pre), q, strat.name(), g, pretty(scn, &kept), p),
                    );
                    return;
                }
                // independent sort-based reference for the selecting strategies
                if strat.selecting() {
                    let sorted = crate::exec::sorted_numvals(ty, &kept);
                    if let Err(e) = check_quantile(&sorted, q, strat, num_of_raw(ty, g.to_raw())) {
                        cx.fail("skipnan-vs-sorted:quantile", format!("lane {}: {}", l, e));
                        return;
                    }
                }
            }
            (Outcome::Done(Ok(p)), None) => {
                cx.fail("skipnan-vs-plain:quantile", format!("quantile_axis_skipnan_mut(q={:?}, {}) panicked although the plain quantile of lane {} without missing values is {:?}", q, strat.name(), l, p));
                return;
            }
            (Outcome::Done(Err(e)), _) => {
                cx.fail("skipnan-vs-plain:quantile", format!("plain quantile_mut on non-empty filtered lane returned {:?}", e));
                return;
            }
            (Outcome::Panicked(_), _) => plain_panicked = true,
            (Outcome::NoProgress, _) => {
                cx.fail("no-progress", "plain quantile_mut did not complete".into());
                return;
            }
        }
    }
    if res.is_none() && !plain_panicked {
        cx.fail("skipnan-vs-plain:quantile", format!("quantile_axis_skipnan_mut(q={:?}, {}) panicked: {}", q, strat.name(), crate::entropy::last_panic_message()));
    }
    if let Some(r) = &res {
        for x in r.iter() {
            cx.dg.evi(x.to_raw());
        }
    }
}

fn nd_plain_err<P: OrdElem, D: Dimension + RemoveAxis>(mut a: ndarray::Array<P, D>, axis: usize, q: f64, strat: Strat) -> Result<(), String> {
    with_strat!(strat, i => a.quantile_axis_mut(Axis(axis), n64(q), i)).map(|_| ()).map_err(|e| format!("{:?}", e))
}

fn error_agreement<T: NanElem>(cx: &mut Ctx, scn: &Scenario, w: &mut World<T>, op: &Op, q: f64)
where
    T::NotNan: NnBounds,
{
    let (axis, strat, sd) = (op.axis, op.strat, scn.static_dim);
    cx.stats.probe("error_path_request");
    let shape = w.view_shape();
    let (out, sess) = with_policy(&op.policy, 4096, || with_dim!(w.view_mut(), sd, |vv| nd_skipnan(vv, axis, q, strat)));
    cx.note_draws(op.policy.kind, &sess.draws);
    // the plain operation on an array of the same shape (contents are irrelevant: the request is rejected first)
    let total: usize = shape.iter().product();
    let filler = T::plain_of_raw(scn.elem.raw_of_int(1));
    let plain = ArrayD::from_shape_vec(IxDyn(&shape), vec![filler; total]).unwrap();
    let (o2, _s2) = with_policy(&op.alt, 4096, || with_dim!(plain, sd, |pp| nd_plain_err(pp, axis, q, strat)));
    let a = match out {
        Outcome::Done(r) => r.map(|_| ()),
        Outcome::Panicked(m) => Err(format!("panic: {}", m)),
        Outcome::NoProgress => Err("no progress".into()),
    };
    let b = match o2 {
        Outcome::Done(r) => r,
        Outcome::Panicked(m) => Err(format!("panic: {}", m)),
        Outcome::NoProgress => Err("no progress".into()),
    };
    let same = match (&a, &b) {
        (Ok(()), Ok(())) => true,
        (Err(x), Err(y)) => x == y || (x.starts_with("panic") && y.starts_with("panic")),
        _ => false,
    };
    if !same {
        cx.fail(
            "skipnan-vs-plain:error",
            format!("quantile_axis_skipnan_mut(axis {}, q={:?}) on shape {:?} gives {:?}, the plain quantile_axis_mut on the same request gives {:?}", axis, q, shape, a, b),
        );
    }
}

fn nd_map_axis<T: NanElem, D: Dimension + RemoveAxis>(mut v: ArrayViewMut<'_, T, D>, axis: usize, op: &Op) -> (ArrayD<Vec<i64>>, bool)
where
    T::NotNan: NnBounds,
{
    let mut bad = false;
    let r = v.map_axis_skipnan_mut(Axis(axis), |nn| {
        let seen: Vec<i64> = nn.iter().map(|x| T::nn_raw(x)).collect();
        if nn.iter().any(|x| T::nn_is_missing(x)) {
            bad = true;
        } else {
            apply_inner(nn, op);
        }
        seen
    });
    (r.into_dyn(), bad)
}

fn op_map_axis<T: NanElem>(cx: &mut Ctx, scn: &Scenario, w: &mut World<T>, op: &Op, prop: Prop)
where
    T::NotNan: NnBounds,
{
    if op.axis >= w.idx.ndim() {
        return;
    }
    let lanes = w.lanes(op.axis);
    let ty = scn.elem;
    let before = w.snapshot();
    let total: usize = lanes.iter().map(|l| l.len()).sum();
    let bud = budget(total) + 128 * lanes.len() + 64 * op.idx.len() * lanes.len();
    let (axis, sd) = (op.axis, scn.static_dim);
    let (out, sess) = with_policy(&op.policy, bud, || with_dim!(w.view_mut(), sd, |vv| nd_map_axis(vv, axis, op)));
    let all_pre: Vec<i64> = lanes.iter().flat_map(|l| l.iter().map(|&c| before[c])).collect();
    note_case(cx, ty, "map_axis_skipnan", &all_pre, &op.idx, &op.policy, &sess);
    let after = w.snapshot();
    match prop {
        Prop::C03 => {
            if let Err(e) = check_permutation_only(&before, &after, &lanes) {
                cx.fail("not-a-permutation:map_axis_skipnan", format!("map_axis_skipnan_mut axis {} (closure: {}): {}", axis, op.inner, e));
            }
        }
        Prop::C14 => match out {
            Outcome::Done((r, bad)) => {
                if bad {
                    cx.stats.probe("stripped_view_contained_missing_value");
                }
                let mut want_shape = w.view_shape();
                want_shape.remove(axis);
                if r.shape() != want_shape.as_slice() {
                    cx.fail("skipnan-map-shape", format!("map_axis_skipnan_mut returned shape {:?}, expected {:?}", r.shape(), want_shape));
                    return;
                }
                let r_flat: Vec<&Vec<i64>> = r.iter().collect();
                for (l, lane) in lanes.iter().enumerate() {
                    let pre: Vec<i64> = lane.iter().map(|&c| before[c]).collect();
                    note_missing(cx, ty, &pre);
                    let want = sorted_copy(filtered(ty, &pre));
                    let seen = sorted_copy(r_flat[l].clone());
                    if seen != want {
                        cx.fail(
                            "skipnan-lane-contents",
                            format!("map_axis_skipnan_mut axis {}: the closure for lane {} = {:?} saw {:?}, the non-missing elements are {:?}", axis, l, pretty(scn, &pre), pretty(scn, &seen), pretty(scn, &want)),
                        );
                        return;
                    }
                }
            }
            Outcome::Panicked(m) => cx.fail("skipnan-map-panic", format!("map_axis_skipnan_mut axis {} panicked: {}", axis, m)),
            Outcome::NoProgress => cx.fail("no-progress", "map_axis_skipnan_mut did not complete".into()),
        },
        _ => {}
    }
}

struct ReadOut {
    vals: Vec<i64>,
    indexed: Vec<(Vec<usize>, i64)>,
    per_lane: Vec<Vec<i64>>,
    extremum: Option<i64>,
    arg: Option<Result<Vec<usize>, ()>>,
    shape: Vec<usize>,
}

fn nd_readonly<T: NanElem, D: Dimension + RemoveAxis>(v: ArrayView<'_, T, D>, name: &str, axis: usize) -> ReadOut
where
    T::NotNan: NnBounds,
{
    let mut o = ReadOut { vals: vec![], indexed: vec![], per_lane: vec![], extremum: None, arg: None, shape: vec![] };
    match name {
        "fold_skipnan" => {
            o.vals = v.fold_skipnan(Vec::new(), |mut acc, x| {
                acc.push(T::nn_raw(x));
                acc
            });
        }
        "visit_skipnan" => {
            let mut acc = vec![];
            v.visit_skipnan(|x| acc.push(T::nn_raw(x)));
            o.vals = acc;
        }
        "indexed_fold_skipnan" => {
            o.indexed = v.indexed_fold_skipnan(Vec::new(), |mut acc, (pat, x)| {
                acc.push((pat.into_dimension().slice().to_vec(), T::nn_raw(x)));
                acc
            });
        }
        "fold_axis_skipnan" => {
            let r = v.fold_axis_skipnan(Axis(axis), Vec::<i64>::new(), |acc, x| {
                let mut a = acc.clone();
                a.push(T::nn_raw(x));
                a
            });
            o.shape = r.shape().to_vec();
            o.per_lane = r.iter().cloned().collect();
        }
        "min_skipnan" => o.extremum = Some(v.min_skipnan().to_raw()),
        "max_skipnan" => o.extremum = Some(v.max_skipnan().to_raw()),
        "argmin_skipnan" => o.arg = Some(v.argmin_skipnan().map(|p| p.into_dimension().slice().to_vec()).map_err(|_| ())),
        "argmax_skipnan" => o.arg = Some(v.argmax_skipnan().map(|p| p.into_dimension().slice().to_vec()).map_err(|_| ())),
        _ => {}
    }
    o
}

fn num_cmp(a: NumVal, b: NumVal) -> std::cmp::Ordering {
    match (a, b) {
        (NumVal::I(x), NumVal::I(y)) => x.cmp(&y),
        (x, y) => x.as_f64().partial_cmp(&y.as_f64()).unwrap(),
    }
}

fn op_readonly<T: NanElem>(cx: &mut Ctx, scn: &Scenario, w: &mut World<T>, op: &Op, prop: Prop)
where
    T::NotNan: NnBounds,
{
    if prop != Prop::C14 {
        return;
    }
    let ty = scn.elem;
    if op.name == "fold_axis_skipnan" && op.axis >= w.idx.ndim() {
        return;
    }
    let before = w.snapshot();
    let cells = w.all_cells();
    let pre: Vec<i64> = cells.iter().map(|&c| before[c]).collect();
    note_missing(cx, ty, &pre);
    let (axis, sd) = (op.axis, scn.static_dim);
    let name = op.name.clone();
    let (out, sess) = with_policy(&op.policy, 1024, || {
        let vm = w.view_mut();
        with_dim!(vm, sd, |vv| nd_readonly(vv.view(), &name, axis))
    });
    cx.note_draws(op.policy.kind, &sess.draws);
    if w.snapshot() != before {
        cx.fail("skipnan-readonly-mutated", format!("{} changed the array", op.name));
        return;
    }
    let o = match out {
        Outcome::Done(o) => o,
        Outcome::Panicked(m) => {
            cx.fail("skipnan-panic", format!("{} panicked: {}", op.name, m));
            return;
        }
        Outcome::NoProgress => return,
    };
    let kept = filtered(ty, &pre);
    match op.name.as_str() {
        "fold_skipnan" | "visit_skipnan" => {
            for &x in &o.vals {
                cx.dg.evi(x);
            }
            if sorted_copy(o.vals.clone()) != sorted_copy(kept.clone()) {
                cx.fail(&format!("skipnan-visits:{}", op.name), format!("{} on {:?} visited {:?}; the non-missing elements are {:?}", op.name, pretty(scn, &pre), pretty(scn, &o.vals), pretty(scn, &kept)));
            }
        }
        "indexed_fold_skipnan" => {
            let mut seen = std::collections::BTreeSet::new();
            for (ix, raw) in &o.indexed {
                let ok_ix = ix.len() == w.idx.ndim() && ix.iter().zip(w.idx.shape()).all(|(i, s)| i < s);
                if !ok_ix {
                    cx.fail("skipnan-indexed-fold", format!("indexed_fold_skipnan produced index {:?} for a view of shape {:?}", ix, w.idx.shape()));
                    return;
                }
                let cell = w.idx[IxDyn(ix)];
                if before[cell] != *raw || ty.is_missing_raw(*raw) {
                    cx.fail("skipnan-indexed-fold", format!("indexed_fold_skipnan paired index {:?} with {}, the element there is {}", ix, ty.pretty(*raw), ty.pretty(before[cell])));
                    return;
                }
                if !seen.insert(ix.clone()) {
                    cx.fail("skipnan-indexed-fold", format!("indexed_fold_skipnan visited index {:?} twice", ix));
                    return;
                }
            }
            if seen.len() != kept.len() {
                cx.fail("skipnan-indexed-fold", format!("indexed_fold_skipnan visited {} elements, {} are not missing", seen.len(), kept.len()));
            }
        }
        "fold_axis_skipnan" => {
            let lanes = w.lanes(op.axis);
            let mut want_shape = w.view_shape();
            want_shape.remove(op.axis);
            if o.shape != want_shape || o.per_lane.len() != lanes.len() {
                cx.fail("skipnan-fold-axis", format!("fold_axis_skipnan axis {} returned shape {:?}, expected {:?}", op.axis, o.shape, want_shape));
                return;
            }
            for (l, lane) in lanes.iter().enumerate() {
                let lp: Vec<i64> = lane.iter().map(|&c| before[c]).collect();
                // the plain fold_axis combines the elements of a lane in lane order
                let want = filtered(ty, &lp);
                if o.per_lane[l] != want {
                    cx.fail("skipnan-fold-axis", format!("fold_axis_skipnan axis {}: lane {} = {:?} folded {:?} (in this order), the non-missing elements in lane order are {:?}", op.axis, l, pretty(scn, &lp), pretty(scn, &o.per_lane[l]), pretty(scn, &want)));
                    return;
                }
            }
        }
        "min_skipnan" | "max_skipnan" => {
            let got = o.extremum.unwrap();
            cx.dg.evi(got);
            if kept.is_empty() {
                cx.stats.probe("extremum_of_nothing");
                if !ty.is_missing_raw(got) {
                    cx.fail("skipnan-extremum", format!("{} of an array without non-missing elements is {}", op.name, ty.pretty(got)));
                }
                return;
            }
            let nums: Vec<NumVal> = kept.iter().map(|&r| num_of_raw(ty, r)).collect();
            let want = if op.name == "min_skipnan" { nums.iter().copied().min_by(|a, b| num_cmp(*a, *b)).unwrap() } else { nums.iter().copied().max_by(|a, b| num_cmp(*a, *b)).unwrap() };
            if ty.is_missing_raw(got) || !num_of_raw(ty, got).num_eq(want) {
                cx.fail("skipnan-extremum", format!("{} of {:?} is {}, a scan of the non-missing elements gives {:?}", op.name, pretty(scn, &pre), ty.pretty(got), want));
            }
        }
        "argmin_skipnan" | "argmax_skipnan" => {
            let got = o.arg.unwrap();
            match got {
                Err(()) => {
                    cx.stats.probe("extremum_of_nothing");
                    if !kept.is_empty() {
                        cx.fail("skipnan-arg-extremum", format!("{} returned EmptyInput although {:?} has non-missing elements", op.name, pretty(scn, &pre)));
                    }
                }
                Ok(ix) => {
                    if kept.is_empty() {
                        cx.fail("skipnan-arg-extremum", format!("{} returned index {:?} for an array without non-missing elements", op.name, ix));
                        return;
                    }
                    let ok_ix = ix.len() == w.idx.ndim() && ix.iter().zip(w.idx.shape()).all(|(i, s)| i < s);
                    if !ok_ix {
                        cx.fail("skipnan-arg-extremum", format!("{} returned index {:?} for a view of shape {:?}", op.name, ix, w.idx.shape()));
                        return;
                    }
                    let raw = before[w.idx[IxDyn(&ix)]];
                    let nums: Vec<NumVal> = kept.iter().map(|&r| num_of_raw(ty, r)).collect();
                    let want = if op.name == "argmin_skipnan" { nums.iter().copied().min_by(|a, b| num_cmp(*a, *b)).unwrap() } else { nums.iter().copied().max_by(|a, b| num_cmp(*a, *b)).unwrap() };
                    if ty.is_missing_raw(raw) || !num_of_raw(ty, raw).num_eq(want) {
                        cx.fail("skipnan-arg-extremum", format!("{} of {:?} (shape {:?}) returned index {:?} holding {}, the extremum of the non-missing elements is {:?}", op.name, pretty(scn, &pre), w.idx.shape(), ix, ty.pretty(raw), want));
                    }
                }
            }
        }
        _ => {}
    }
}

#[allow(dead_code)]
fn _unused<T: OrdElem>() {}
