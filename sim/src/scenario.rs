//! Explicit, seed-free description of one simulated run: the world (parent
//! buffer + view into it), the operation history and the entropy policy of every
//! operation. This is what replay files contain.

use crate::entropy::Policy;
use serde_json::{json, Value};

#[derive(Clone, Copy, Debug, PartialEq, Eq, Hash, PartialOrd, Ord)]
pub enum ElemTy {
    I8,
    I32,
    I64,
    U8,
    U64,
    N64,
    F64,
    F32,
    OptI32,
    OptU8,
    /// key/payload record ordered by key only (Ord-equality coarser than identity)
    Keyed,
    /// Option<N64>: None is encoded as the canonical NaN bit pattern
    OptN64,
    /// heap-allocated integer: an element type with drop glue
    Boxed,
    /// a 96-byte element without drop glue
    Fat,
    /// an element whose comparison itself calls the library (re-entrancy on the same thread)
    Reent,
    /// a zero-sized element type (all elements are equal)
    Zst,
    /// the remaining Option<integer> types that implement MaybeNan (None = i64::MIN)
    OptI8,
    OptI16,
    OptI64,
    OptI128,
    OptU16,
    OptU32,
    OptU64,
    OptU128,
}

pub const ALL_ELEMS: [ElemTy; 24] = [
    ElemTy::I8,
    ElemTy::I32,
    ElemTy::I64,
    ElemTy::U8,
    ElemTy::U64,
    ElemTy::N64,
    ElemTy::F64,
    ElemTy::F32,
    ElemTy::OptI32,
    ElemTy::OptU8,
    ElemTy::Keyed,
    ElemTy::OptN64,
    ElemTy::Boxed,
    ElemTy::Fat,
    ElemTy::Reent,
    ElemTy::Zst,
    ElemTy::OptI8,
    ElemTy::OptI16,
    ElemTy::OptI64,
    ElemTy::OptI128,
    ElemTy::OptU16,
    ElemTy::OptU32,
    ElemTy::OptU64,
    ElemTy::OptU128,
];

impl ElemTy {
    pub fn name(self) -> &'static str {
        match self {
            ElemTy::I8 => "i8",
            ElemTy::I32 => "i32",
            ElemTy::I64 => "i64",
            ElemTy::U8 => "u8",
            ElemTy::U64 => "u64",
            ElemTy::N64 => "N64",
            ElemTy::F64 => "f64",
            ElemTy::F32 => "f32",
            ElemTy::OptI32 => "Option<i32>",
            ElemTy::OptU8 => "Option<u8>",
            ElemTy::Keyed => "Keyed",
            ElemTy::OptN64 => "Option<N64>",
            ElemTy::Boxed => "Boxed(Box<i64>)",
            ElemTy::Fat => "Fat(96 bytes)",
            ElemTy::Reent => "Reent(cmp calls the library)",
            ElemTy::Zst => "Zst(zero-sized)",
            ElemTy::OptI8 => "Option<i8>",
            ElemTy::OptI16 => "Option<i16>",
            ElemTy::OptI64 => "Option<i64>",
            ElemTy::OptI128 => "Option<i128>",
            ElemTy::OptU16 => "Option<u16>",
            ElemTy::OptU32 => "Option<u32>",
            ElemTy::OptU64 => "Option<u64>",
            ElemTy::OptU128 => "Option<u128>",

        }
    }
    pub fn from_name(s: &str) -> Option<ElemTy> {
        ALL_ELEMS.iter().copied().find(|e| e.name() == s)
    }
    pub fn is_maybe_nan(self) -> bool {
        matches!(self, ElemTy::F64 | ElemTy::F32 | ElemTy::OptI32 | ElemTy::OptU8 | ElemTy::OptN64 | ElemTy::OptI8 | ElemTy::OptI16 | ElemTy::OptI64 | ElemTy::OptI128 | ElemTy::OptU16 | ElemTy::OptU32 | ElemTy::OptU64 | ElemTy::OptU128)
    }
    pub fn is_float(self) -> bool {
        matches!(self, ElemTy::N64 | ElemTy::F64 | ElemTy::F32 | ElemTy::OptN64)
    }
    /// inclusive integer value range of the (non-missing) values
    pub fn int_range(self) -> (i128, i128) {
        match self {
            ElemTy::I8 => (i8::MIN as i128, i8::MAX as i128),
            ElemTy::I32 | ElemTy::OptI32 => (i32::MIN as i128, i32::MAX as i128),
            ElemTy::I64 => (i64::MIN as i128, i64::MAX as i128),
            ElemTy::U8 | ElemTy::OptU8 => (0, u8::MAX as i128),
            ElemTy::U64 => (0, u64::MAX as i128),
            ElemTy::Keyed => (-1000, 1000),
            ElemTy::Zst => (0, 0),
            ElemTy::OptI8 => (i8::MIN as i128, i8::MAX as i128),
            ElemTy::OptI16 => (i16::MIN as i128, i16::MAX as i128),
            ElemTy::OptI64 | ElemTy::OptI128 => (-(1i128 << 62), 1i128 << 62),
            ElemTy::OptU16 => (0, u16::MAX as i128),
            ElemTy::OptU32 => (0, u32::MAX as i128),
            ElemTy::OptU64 | ElemTy::OptU128 => (0, 1i128 << 62),

            ElemTy::Boxed | ElemTy::Fat | ElemTy::Reent => (-(1i128 << 40), 1i128 << 40),
            _ => (-(1i128 << 53), 1i128 << 53),
        }
    }
    /// largest difference of two values the element type's own subtraction can represent
    pub fn spread_max(self) -> i128 {
        match self {
            ElemTy::Boxed | ElemTy::Fat | ElemTy::Reent => i64::MAX as i128,
            ElemTy::Keyed => i32::MAX as i128,
            _ => self.int_range().1,
        }
    }
    /// raw encoding of the missing value (only for MaybeNan types)
    pub fn missing_raw(self, variant: u64) -> i64 {
        match self {
            ElemTy::F64 => {
                let payloads = [
                    f64::NAN.to_bits(),
                    (-f64::NAN).to_bits(),
                    0x7ff8_0000_0000_0001,
                    0x7ff0_0000_0000_0001,
                    0xfff8_dead_beef_0001,
                ];
                payloads[(variant % 5) as usize] as i64
            }
            ElemTy::F32 => {
                let payloads = [f32::NAN.to_bits(), (-f32::NAN).to_bits(), 0x7fc0_0001, 0x7f80_0001];
                payloads[(variant % 4) as usize] as i64
            }
            ElemTy::OptI32 | ElemTy::OptU8 | ElemTy::OptI8 | ElemTy::OptI16 | ElemTy::OptI64 | ElemTy::OptI128 | ElemTy::OptU16 | ElemTy::OptU32 | ElemTy::OptU64 | ElemTy::OptU128 => i64::MIN,
            ElemTy::OptN64 => f64::NAN.to_bits() as i64,
            _ => panic!("no missing value for {}", self.name()),
        }
    }
    pub fn is_missing_raw(self, raw: i64) -> bool {
        match self {
            ElemTy::F64 | ElemTy::OptN64 => f64::from_bits(raw as u64).is_nan(),
            ElemTy::F32 => f32::from_bits(raw as u32).is_nan(),
            ElemTy::OptI32 | ElemTy::OptU8 | ElemTy::OptI8 | ElemTy::OptI16 | ElemTy::OptI64 | ElemTy::OptI128 | ElemTy::OptU16 | ElemTy::OptU32 | ElemTy::OptU64 | ElemTy::OptU128 => raw == i64::MIN,
            _ => false,
        }
    }
    /// raw encoding of the integer value v (must be inside int_range; floats: exactly representable)
    pub fn raw_of_int(self, v: i128) -> i64 {
        match self {
            ElemTy::N64 | ElemTy::F64 | ElemTy::OptN64 => (v as f64).to_bits() as i64,
            ElemTy::F32 => (v as f32).to_bits() as i64,
            ElemTy::U64 => (v as u64) as i64,
            ElemTy::Keyed => (v as i64) << 32,
            ElemTy::Zst => 0,
            _ => v as i64,
        }
    }
    pub fn raw_of_f64(self, x: f64) -> i64 {
        match self {
            ElemTy::N64 | ElemTy::F64 | ElemTy::OptN64 => x.to_bits() as i64,
            ElemTy::F32 => (x as f32).to_bits() as i64,
            _ => panic!("raw_of_f64 on integer type"),
        }
    }
    pub fn pretty(self, raw: i64) -> String {
        match self {
            ElemTy::N64 | ElemTy::F64 => format!("{:?}", f64::from_bits(raw as u64)),
            ElemTy::OptN64 => {
                let x = f64::from_bits(raw as u64);
                if x.is_nan() {
                    "None".into()
                } else {
                    format!("Some({:?})", x)
                }
            }
            ElemTy::F32 => format!("{:?}", f32::from_bits(raw as u32)),
            ElemTy::U64 => format!("{}", raw as u64),
            ElemTy::Keyed => format!("key {} tag {}", raw >> 32, raw & 0xffff_ffff),
            ElemTy::OptI32 | ElemTy::OptU8 | ElemTy::OptI8 | ElemTy::OptI16 | ElemTy::OptI64 | ElemTy::OptI128 | ElemTy::OptU16 | ElemTy::OptU32 | ElemTy::OptU64 | ElemTy::OptU128 => {
                if raw == i64::MIN {
                    "None".into()
                } else {
                    format!("Some({})", raw)
                }
            }
            _ => format!("{}", raw),
        }
    }
}

#[derive(Clone, Copy, Debug, PartialEq, Eq, Hash, PartialOrd, Ord)]
pub enum Strat {
    Lower,
    Higher,
    Nearest,
    Midpoint,
    Linear,
}

pub const ALL_STRATS: [Strat; 5] = [Strat::Lower, Strat::Higher, Strat::Nearest, Strat::Midpoint, Strat::Linear];

impl Strat {
    pub fn name(self) -> &'static str {
        match self {
            Strat::Lower => "Lower",
            Strat::Higher => "Higher",
            Strat::Nearest => "Nearest",
            Strat::Midpoint => "Midpoint",
            Strat::Linear => "Linear",
        }
    }
    pub fn from_name(s: &str) -> Option<Strat> {
        ALL_STRATS.iter().copied().find(|e| e.name() == s)
    }
    pub fn selecting(self) -> bool {
        matches!(self, Strat::Lower | Strat::Higher | Strat::Nearest)
    }
}

/// One operation of a history. A flat record: `name` says which public call is
/// made, the other fields are its arguments (unused ones stay empty).
#[derive(Clone, Debug, PartialEq)]
pub struct Op {
    pub name: String,
    /// for 1-D operations on an n-D view: (axis, k) = the k-th lane along axis
    pub lane: Option<(usize, usize)>,
    pub axis: usize,
    /// requested positions (selection index, pivot position, index list, bin index, ...)
    pub idx: Vec<u64>,
    pub qs: Vec<f64>,
    pub strat: Strat,
    /// how list arguments are passed: 0 owned array, 1 view, 2 stepped view,
    /// 3 reversed view, 4 reversed stepped view
    pub form: u8,
    /// what the 1-D receiver of select / select_many / partition is: 0 the lane
    /// view into the world, 1 an owned copy, 2 an ArcArray sharing its buffer
    /// with a second handle, 3 a CowArray borrowing another array
    pub storage: u8,
    /// operation applied through the stripped view (remove_nan / map_axis_skipnan_mut)
    pub inner: String,
    /// auxiliary integer data (edges for bins/grid operations, weights, transforms ...)
    pub aux: Vec<Vec<i64>>,
    pub policy: Policy,
    /// policy family for the secondary calls an oracle makes on clones
    pub alt: Policy,
}

impl Op {
    pub fn new(name: &str, policy: Policy, alt: Policy) -> Op {
        Op {
            name: name.to_string(),
            lane: None,
            axis: 0,
            idx: vec![],
            qs: vec![],
            strat: Strat::Lower,
            form: 0,
            storage: 0,
            inner: String::new(),
            aux: vec![],
            policy,
            alt,
        }
    }
    pub fn to_json(&self) -> Value {
        let mut m = serde_json::Map::new();
        m.insert("op".into(), json!(self.name));
        if let Some((a, k)) = self.lane {
            m.insert("lane".into(), json!([a, k]));
        }
        m.insert("axis".into(), json!(self.axis));
        if !self.idx.is_empty() {
            m.insert("idx".into(), json!(self.idx));
        }
        if !self.qs.is_empty() {
            // exact: store the bit patterns, plus a readable rendering
            m.insert("qs_bits".into(), json!(self.qs.iter().map(|q| q.to_bits()).collect::<Vec<_>>()));
            m.insert("qs".into(), json!(self.qs.iter().map(|q| format!("{:?}", q)).collect::<Vec<_>>()));
        }
        m.insert("strategy".into(), json!(self.strat.name()));
        m.insert("form".into(), json!(self.form));
        if self.storage != 0 {
            m.insert("storage".into(), json!(self.storage));
        }
        if !self.inner.is_empty() {
            m.insert("inner".into(), json!(self.inner));
        }
        if !self.aux.is_empty() {
            m.insert("aux".into(), json!(self.aux));
        }
        m.insert("policy".into(), self.policy.to_json());
        m.insert("alt".into(), self.alt.to_json());
        Value::Object(m)
    }
    pub fn from_json(v: &Value) -> Result<Op, String> {
        let name = v["op"].as_str().ok_or("op name")?.to_string();
        let lane = v.get("lane").and_then(|l| l.as_array()).map(|l| {
            (l[0].as_u64().unwrap_or(0) as usize, l[1].as_u64().unwrap_or(0) as usize)
        });
        let idx = v
            .get("idx")
            .and_then(|a| a.as_array())
            .map(|a| a.iter().map(|x| x.as_u64().unwrap_or(0)).collect())
            .unwrap_or_default();
        let qs = v
            .get("qs_bits")
            .and_then(|a| a.as_array())
            .map(|a| a.iter().map(|x| f64::from_bits(x.as_u64().unwrap_or(0))).collect())
            .unwrap_or_default();
        let aux = v
            .get("aux")
            .and_then(|a| a.as_array())
            .map(|a| {
                a.iter()
                    .map(|r| r.as_array().map(|r| r.iter().map(|x| x.as_i64().unwrap_or(0)).collect()).unwrap_or_default())
                    .collect()
            })
            .unwrap_or_default();
        Ok(Op {
            name,
            lane,
            axis: v["axis"].as_u64().unwrap_or(0) as usize,
            idx,
            qs,
            strat: v["strategy"].as_str().and_then(Strat::from_name).unwrap_or(Strat::Lower),
            form: v["form"].as_u64().unwrap_or(0) as u8,
            storage: v.get("storage").and_then(|x| x.as_u64()).unwrap_or(0) as u8,
            inner: v.get("inner").and_then(|s| s.as_str()).unwrap_or("").to_string(),
            aux,
            policy: Policy::from_json(&v["policy"])?,
            alt: Policy::from_json(&v["alt"])?,
        })
    }
}

/// A view into the parent buffer: per parent axis (start, end, step) in the
/// sense of `ndarray::Slice`, then an axis permutation.
#[derive(Clone, Debug, PartialEq)]
pub struct ViewDesc {
    pub slices: Vec<(isize, isize, isize)>,
    pub perm: Vec<usize>,
}

#[derive(Clone, Debug, PartialEq)]
pub struct Scenario {
    pub prop: String,
    pub elem: ElemTy,
    /// static dimensionality (Ix1..Ix4) instead of IxDyn for n-D calls
    pub static_dim: bool,
    pub parent_shape: Vec<usize>,
    /// raw element encodings, row-major over parent_shape
    pub data: Vec<i64>,
    pub view: ViewDesc,
    pub ops: Vec<Op>,
}

impl Scenario {
    pub fn view_shape(&self) -> Vec<usize> {
        let mut sh: Vec<usize> = self
            .view
            .slices
            .iter()
            .map(|&(s, e, st)| {
                let len = (e - s).max(0) as usize;
                let st = st.unsigned_abs();
                (len + st - 1) / st
            })
            .collect();
        let p = &self.view.perm;
        let orig = sh.clone();
        for (i, &a) in p.iter().enumerate() {
            sh[i] = orig[a];
        }
        sh
    }
    pub fn to_json(&self) -> Value {
        json!({
            "kind": "array",
            "property": self.prop,
            "elem": self.elem.name(),
            "static_dim": self.static_dim,
            "parent_shape": self.parent_shape,
            "data": self.data,
            "data_readable": self.data.iter().map(|&r| self.elem.pretty(r)).collect::<Vec<_>>(),
            "view": {
                "slices": self.view.slices.iter().map(|&(a,b,c)| json!([a,b,c])).collect::<Vec<_>>(),
                "perm": self.view.perm,
                "shape": self.view_shape(),
            },
            "ops": self.ops.iter().map(|o| o.to_json()).collect::<Vec<_>>(),
        })
    }
    pub fn from_json(v: &Value) -> Result<Scenario, String> {
        let arr_usize = |x: &Value| -> Vec<usize> {
            x.as_array().map(|a| a.iter().map(|y| y.as_u64().unwrap_or(0) as usize).collect()).unwrap_or_default()
        };
        let slices = v["view"]["slices"]
            .as_array()
            .ok_or("view.slices")?
            .iter()
            .map(|t| {
                (
                    t[0].as_i64().unwrap_or(0) as isize,
                    t[1].as_i64().unwrap_or(0) as isize,
                    t[2].as_i64().unwrap_or(1) as isize,
                )
            })
            .collect();
        let mut ops = vec![];
        for o in v["ops"].as_array().ok_or("ops")? {
            ops.push(Op::from_json(o)?);
        }
        Ok(Scenario {
            prop: v["property"].as_str().ok_or("property")?.to_string(),
            elem: v["elem"].as_str().and_then(ElemTy::from_name).ok_or("elem")?,
            static_dim: v["static_dim"].as_bool().unwrap_or(false),
            parent_shape: arr_usize(&v["parent_shape"]),
            data: v["data"].as_array().ok_or("data")?.iter().map(|x| x.as_i64().unwrap_or(0)).collect(),
            view: ViewDesc { slices, perm: arr_usize(&v["view"]["perm"]) },
            ops,
        })
    }
}

/// A violation of the property under test, found by an oracle.
#[derive(Clone, Debug)]
pub struct Violation {
    /// stable class key: what kind of failure (used for minimisation and for
    /// matching known findings)
    pub class: String,
    pub msg: String,
    pub op_index: usize,
}
