//! Batch runner: seeded search over many simulated runs on all cores.
//! Run i depends only on (VERIF_SEED, property, i), never on the worker that
//! executes it or on the number of workers.

use crate::elem::*;
use crate::exec::{exec_ord, Prop};
use crate::gen::{gen_array_scenario, gen_hist_scenario, Tier};
use crate::hist::{exec_hist, HistScenario};
use crate::nan::exec_nan;
use crate::scenario::{ElemTy, Scenario, Violation};
use crate::stats::{BatchStats, RunResult};
use crate::util::{fnv, mix, Rng};
use noisy_float::types::N64;
use serde_json::Value;
use std::sync::atomic::{AtomicBool, AtomicU64, AtomicUsize, Ordering};
use std::sync::Mutex;
use std::time::Instant;

#[derive(Clone, Debug, PartialEq)]
pub enum AnyScn {
    Array(Scenario),
    Hist(HistScenario),
}

impl AnyScn {
    pub fn to_json(&self) -> Value {
        match self {
            AnyScn::Array(s) => s.to_json(),
            AnyScn::Hist(h) => h.to_json(),
        }
    }
    pub fn from_json(v: &Value) -> Result<AnyScn, String> {
        match v["kind"].as_str() {
            Some("hist") => Ok(AnyScn::Hist(HistScenario::from_json(v)?)),
            _ => Ok(AnyScn::Array(Scenario::from_json(v)?)),
        }
    }
    pub fn exec(&self, prop: Prop) -> RunResult {
        match self {
            AnyScn::Array(s) => exec_array(s, prop),
            AnyScn::Hist(h) => exec_hist(h),
        }
    }
}

pub fn exec_array(scn: &Scenario, prop: Prop) -> RunResult {
    match scn.elem {
        ElemTy::I8 => exec_ord::<i8>(scn, prop),
        ElemTy::I32 => exec_ord::<i32>(scn, prop),
        ElemTy::I64 => exec_ord::<i64>(scn, prop),
        ElemTy::U8 => exec_ord::<u8>(scn, prop),
        ElemTy::U64 => exec_ord::<u64>(scn, prop),
        ElemTy::N64 => exec_ord::<N64>(scn, prop),
        ElemTy::F64 => exec_nan::<f64>(scn, prop),
        ElemTy::F32 => exec_nan::<f32>(scn, prop),
        ElemTy::OptI32 => exec_nan::<Option<i32>>(scn, prop),
        ElemTy::OptU8 => exec_nan::<Option<u8>>(scn, prop),
        ElemTy::Keyed => exec_ord::<Keyed>(scn, prop),
        ElemTy::OptN64 => exec_nan::<Option<N64>>(scn, prop),
        ElemTy::Boxed => exec_ord::<Boxed>(scn, prop),
        ElemTy::Fat => exec_ord::<Fat>(scn, prop),
        ElemTy::Reent => exec_ord::<Reent>(scn, prop),
        ElemTy::Zst => exec_ord::<Zst>(scn, prop),
        ElemTy::OptI8 => exec_nan::<Option<i64>>(scn, prop), // not instantiated separately (compile time); never generated
        ElemTy::OptI16 => exec_nan::<Option<i64>>(scn, prop), // not instantiated separately (compile time); never generated
        ElemTy::OptI64 => exec_nan::<Option<i64>>(scn, prop),
        ElemTy::OptI128 => exec_nan::<Option<i128>>(scn, prop),
        ElemTy::OptU16 => exec_nan::<Option<u16>>(scn, prop),
        ElemTy::OptU32 => exec_nan::<Option<i64>>(scn, prop), // not instantiated separately (compile time); never generated
        ElemTy::OptU64 => exec_nan::<Option<i64>>(scn, prop), // not instantiated separately (compile time); never generated
        ElemTy::OptU128 => exec_nan::<Option<i64>>(scn, prop), // not instantiated separately (compile time); never generated

    }
}

pub fn run_seed(seed: u64, prop: Prop, idx: u64) -> u64 {
    mix(mix(seed, fnv(prop.name())), idx)
}

pub fn generate(prop: Prop, seed: u64, idx: u64, tier: Tier) -> AnyScn {
    let mut rng = Rng::new(run_seed(seed, prop, idx));
    match prop {
        Prop::C11 => AnyScn::Hist(gen_hist_scenario(&mut rng, tier)),
        _ => AnyScn::Array(gen_array_scenario(prop, &mut rng, tier)),
    }
}

pub struct Found {
    pub run: u64,
    pub violation: Violation,
    /// runs the same worker thread executed earlier in this chunk (in order):
    /// what a library with thread-local state has seen before this run
    pub prior: Vec<u64>,
}

pub struct BatchOutcome {
    pub stats: BatchStats,
    pub found: Vec<Found>,
    pub determinism_rechecks: u64,
    pub determinism_mismatch: Option<u64>,
    pub hang: Option<u64>,
    pub wall_s: f64,
    pub runs_requested: u64,
    pub stopped_early: bool,
}

pub const CHUNK: u64 = 16384;
pub const WATCHDOG_SECS: u64 = 600;
pub static WATCHDOG_OVERRIDE: AtomicU64 = AtomicU64::new(0);

pub fn watchdog_secs() -> u64 {
    match WATCHDOG_OVERRIDE.load(Ordering::Relaxed) {
        0 => WATCHDOG_SECS,
        v => v,
    }
}

/// slots the crash handler and the watchdog read: current run index + 1 per worker (0 = idle)
pub static CURRENT: [AtomicU64; 64] = {
    const Z: AtomicU64 = AtomicU64::new(0);
    [Z; 64]
};

pub fn run_batch(prop: Prop, tier: Tier, seed: u64, runs: u64, threads: usize, max_secs: f64, exclude: &[u64]) -> BatchOutcome {
    let t0 = Instant::now();
    let threads = threads.clamp(1, 64);
    let mut total = BatchStats::new();
    let mut found: Vec<Found> = vec![];
    let mut rechecks = 0u64;
    let mut mismatch: Option<u64> = None;
    let hang: Mutex<Option<u64>> = Mutex::new(None);
    let mut start = 0u64;
    let mut stopped_early = false;
    // watchdog state: per worker (run idx, start time)
    let starts: Vec<Mutex<Option<(u64, Instant)>>> = (0..threads).map(|_| Mutex::new(None)).collect();
    let done = AtomicBool::new(false);
    let slow_report = std::env::var("SIMCTL_SLOW").is_ok();
    std::thread::scope(|sc| {
        // watchdog: a run that neither finishes nor draws entropy cannot be unwound
        sc.spawn(|| {
            while !done.load(Ordering::Relaxed) {
                std::thread::sleep(std::time::Duration::from_millis(250));
                for s in &starts {
                    if let Some((idx, t)) = *s.lock().unwrap() {
                        if t.elapsed().as_secs() >= watchdog_secs() {
                            *hang.lock().unwrap() = Some(idx);
                            crate::report::report_hang(prop, tier, seed, idx);
                        }
                    }
                }
            }
        });
        while start < runs {
            let end = (start + CHUNK).min(runs);
            let next = AtomicU64::new(start);
            let results: Mutex<Vec<(BatchStats, Vec<Found>, u64, Option<u64>)>> = Mutex::new(vec![]);
            let wid = AtomicUsize::new(0);
            std::thread::scope(|s2| {
                for _ in 0..threads {
                    let _ = std::thread::Builder::new().stack_size(crate::util::BIG_STACK).spawn_scoped(s2, || {
                        let me = wid.fetch_add(1, Ordering::Relaxed);
                        let mut bs = BatchStats::new();
                        let mut fs = vec![];
                        let mut rc = 0u64;
                        let mut mm = None;
                        let mut mine: Vec<u64> = vec![];
                        loop {
                            let i = next.fetch_add(1, Ordering::Relaxed);
                            if i >= end {
                                break;
                            }
                            if exclude.contains(&i) {
                                continue;
                            }
                            CURRENT[me].store(i + 1, Ordering::Relaxed);
                            *starts[me].lock().unwrap() = Some((i, Instant::now()));
                            let scn = generate(prop, seed, i, tier);
                            let t_run = Instant::now();
                            let r = scn.exec(prop);
                            if slow_report && t_run.elapsed().as_millis() > 200 {
                                eprintln!("SLOW run={} ms={}", i, t_run.elapsed().as_millis());
                            }
                            if i % 50 == 0 {
                                rc += 1;
                                let r2 = generate(prop, seed, i, tier).exec(prop);
                                if r2.digest != r.digest {
                                    mm = Some(i);
                                }
                            }
                            *starts[me].lock().unwrap() = None;
                            CURRENT[me].store(0, Ordering::Relaxed);
                            bs.add_run(&r);
                            if let Some(v) = r.violations.into_iter().next() {
                                // told to the supervisor at once, in case the process dies before the chunk ends
                                eprintln!("FOUND run={} class={}", i, v.class);
                                fs.push(Found { run: i, violation: v, prior: mine.clone() });
                            }
                            mine.push(i);
                        }
                        results.lock().unwrap().push((bs, fs, rc, mm));
                    });
                }
            });
            for (bs, fs, rc, mm) in results.into_inner().unwrap() {
                total.merge(bs);
                found.extend(fs);
                rechecks += rc;
                if mm.is_some() {
                    mismatch = mm;
                }
            }
            start = end;
            if !found.is_empty() {
                stopped_early = start < runs;
                break;
            }
            if t0.elapsed().as_secs_f64() > max_secs {
                stopped_early = start < runs;
                break;
            }
        }
        done.store(true, Ordering::Relaxed);
    });
    found.sort_by_key(|f| f.run);
    let h = *hang.lock().unwrap();
    BatchOutcome {
        stats: total,
        found,
        determinism_rechecks: rechecks,
        determinism_mismatch: mismatch,
        hang: h,
        wall_s: t0.elapsed().as_secs_f64(),
        runs_requested: runs,
        stopped_early,
    }
}
