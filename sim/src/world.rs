//! The world of an array scenario: a parent allocation and a view into it
//! (offset, stepped, reversed, permuted), realised with ndarray's safe slicing.
//! `idx` maps each logical position of the view to the linear index of the
//! parent cell it aliases; every parent cell not in `idx` is a guard cell.
//! The parent itself sits inside a larger backing allocation with sentinel
//! padding on both sides, so that a (changed) library that writes a little
//! outside the parent corrupts the padding - which is checked - instead of the
//! process heap.

use crate::elem::Elem;
use crate::scenario::{Scenario, ViewDesc};
use ndarray::{ArrayD, ArrayViewD, ArrayViewMutD, Axis, IxDyn, Slice};

pub const PAD: usize = 2048;
const SENTINEL_INT: i128 = 77;

pub struct World<T> {
    backing: Vec<T>,
    pub shape: Vec<usize>,
    pub n: usize,
    pub idx: ArrayD<usize>,
    pub desc: ViewDesc,
    sentinel_raw: i64,
}

fn apply_desc<'a, A>(mut v: ArrayViewMutD<'a, A>, d: &ViewDesc) -> ArrayViewMutD<'a, A> {
    for (ax, &(s, e, st)) in d.slices.iter().enumerate() {
        v.slice_axis_inplace(Axis(ax), Slice::new(s, Some(e), st));
    }
    v.permuted_axes(IxDyn(&d.perm))
}

impl<T: Elem> World<T> {
    pub fn build(scn: &Scenario) -> World<T> {
        let n: usize = scn.parent_shape.iter().product();
        assert_eq!(n, scn.data.len(), "scenario data length");
        let sentinel_raw = T::TY.raw_of_int(SENTINEL_INT);
        let mut backing: Vec<T> = Vec::with_capacity(n + 2 * PAD);
        backing.extend((0..PAD).map(|_| T::from_raw(sentinel_raw)));
        backing.extend(scn.data.iter().map(|&r| T::from_raw(r)));
        backing.extend((0..PAD).map(|_| T::from_raw(sentinel_raw)));
        let mut lin = ArrayD::from_shape_vec(IxDyn(&scn.parent_shape), (0..n).collect::<Vec<usize>>()).unwrap();
        let idx = apply_desc(lin.view_mut(), &scn.view).to_owned();
        // standard layout so that iteration order == logical order and lanes are cheap
        let idx = idx.as_standard_layout().to_owned();
        World { backing, shape: scn.parent_shape.clone(), n, idx, desc: scn.view.clone(), sentinel_raw }
    }
    pub fn parent_len(&self) -> usize {
        self.n
    }
    pub fn parent_cells(&self) -> &[T] {
        &self.backing[PAD..PAD + self.n]
    }
    pub fn parent_cells_mut(&mut self) -> &mut [T] {
        let n = self.n;
        &mut self.backing[PAD..PAD + n]
    }
    pub fn parent_view(&self) -> ArrayViewD<'_, T> {
        ArrayViewD::from_shape(IxDyn(&self.shape), self.parent_cells()).unwrap()
    }
    pub fn view_mut(&mut self) -> ArrayViewMutD<'_, T> {
        let shape = self.shape.clone();
        let desc = self.desc.clone();
        let n = self.n;
        let p = ArrayViewMutD::from_shape(IxDyn(&shape), &mut self.backing[PAD..PAD + n]).unwrap();
        apply_desc(p, &desc)
    }
    /// raw values of the parent cells, by linear index
    pub fn snapshot(&self) -> Vec<i64> {
        self.parent_cells().iter().map(|x| x.to_raw()).collect()
    }
    /// None when the padding around the parent is untouched
    pub fn padding_damage(&self) -> Option<String> {
        for (i, x) in self.backing[..PAD].iter().enumerate() {
            if x.to_raw() != self.sentinel_raw {
                return Some(format!("memory {} elements before the parent buffer was overwritten with {:?}", PAD - i, x));
            }
        }
        for (i, x) in self.backing[PAD + self.n..].iter().enumerate() {
            if x.to_raw() != self.sentinel_raw {
                return Some(format!("memory {} elements past the end of the parent buffer was overwritten with {:?}", i + 1, x));
            }
        }
        None
    }
    pub fn view_shape(&self) -> Vec<usize> {
        self.idx.shape().to_vec()
    }
    /// parent linear indexes of each lane along `axis`, in the order ndarray's
    /// `lanes(axis)` visits them, each lane in logical order
    pub fn lanes(&self, axis: usize) -> Vec<Vec<usize>> {
        self.idx.lanes(Axis(axis)).into_iter().map(|l| l.to_vec()).collect()
    }
    /// the whole view as one "lane" (logical order)
    pub fn all_cells(&self) -> Vec<usize> {
        self.idx.iter().copied().collect()
    }
}

/// Compare two snapshots: every lane must hold the same multiset of raw values,
/// every cell outside `lanes` must be bit-identical.
pub fn check_permutation_only(before: &[i64], after: &[i64], lanes: &[Vec<usize>]) -> Result<(), String> {
    let mut in_lane = vec![false; before.len()];
    for (li, lane) in lanes.iter().enumerate() {
        let mut a: Vec<i64> = lane.iter().map(|&i| before[i]).collect();
        let mut b: Vec<i64> = lane.iter().map(|&i| after[i]).collect();
        a.sort_unstable();
        b.sort_unstable();
        if a != b {
            return Err(format!(
                "lane #{} (parent cells {:?}) held multiset {:?} before the call and {:?} after",
                li, lane, a, b
            ));
        }
        for &i in lane {
            in_lane[i] = true;
        }
    }
    for i in 0..before.len() {
        if !in_lane[i] && before[i] != after[i] {
            return Err(format!(
                "parent cell {} is outside the lanes the call was given but changed from {} to {}",
                i, before[i], after[i]
            ));
        }
    }
    Ok(())
}
