//! The world of an array scenario: a parent allocation and a view into it
//! (offset, stepped, reversed, permuted), realised with ndarray's safe slicing.
//! `idx` maps each logical position of the view to the linear index of the
//! parent cell it aliases; every parent cell not in `idx` is a guard cell.

use crate::elem::Elem;
use crate::scenario::{Scenario, ViewDesc};
use ndarray::{ArrayD, ArrayViewMutD, Axis, IxDyn, Slice};

pub struct World<T> {
    pub parent: ArrayD<T>,
    pub idx: ArrayD<usize>,
    pub desc: ViewDesc,
}

fn apply_desc<'a, A>(mut v: ArrayViewMutD<'a, A>, d: &ViewDesc) -> ArrayViewMutD<'a, A> {
    for (ax, &(s, e, st)) in d.slices.iter().enumerate() {
        v.slice_axis_inplace(Axis(ax), Slice::new(s, Some(e), st));
    }
    v.permuted_axes(IxDyn(&d.perm))
}

impl<T: Elem> World<T> {
    pub fn build(scn: &Scenario) -> World<T> {
        let n: usize = scn.parent_shape.iter().product();
        assert_eq!(n, scn.data.len(), "scenario data length");
        let parent = ArrayD::from_shape_vec(IxDyn(&scn.parent_shape), scn.data.iter().map(|&r| T::from_raw(r)).collect())
            .expect("parent shape");
        let mut lin = ArrayD::from_shape_vec(IxDyn(&scn.parent_shape), (0..n).collect::<Vec<usize>>()).unwrap();
        let idx = apply_desc(lin.view_mut(), &scn.view).to_owned();
        // make idx standard layout so that iteration order == logical order and lanes are cheap
        let idx = idx.as_standard_layout().to_owned();
        World { parent, idx, desc: scn.view.clone() }
    }
    pub fn view_mut(&mut self) -> ArrayViewMutD<'_, T> {
        apply_desc(self.parent.view_mut(), &self.desc)
    }
    pub fn snapshot(&self) -> Vec<i64> {
        // parent is owned standard layout: iteration order is the linear index
        self.parent.iter().map(|x| x.to_raw()).collect()
    }
    pub fn view_shape(&self) -> Vec<usize> {
        self.idx.shape().to_vec()
    }
    /// parent linear indexes of each lane along `axis`, in the order ndarray's
    /// `lanes(axis)` visits them, each lane in logical order
    pub fn lanes(&self, axis: usize) -> Vec<Vec<usize>> {
        self.idx.lanes(Axis(axis)).into_iter().map(|l| l.to_vec()).collect()
    }
    /// the whole view as one "lane" (logical order)
    pub fn all_cells(&self) -> Vec<usize> {
        self.idx.iter().copied().collect()
    }
}

/// Compare two snapshots: every lane must hold the same multiset of raw values,
/// every cell outside `lanes` must be bit-identical.
pub fn check_permutation_only(before: &[i64], after: &[i64], lanes: &[Vec<usize>]) -> Result<(), String> {
    let mut in_lane = vec![false; before.len()];
    for (li, lane) in lanes.iter().enumerate() {
        let mut a: Vec<i64> = lane.iter().map(|&i| before[i]).collect();
        let mut b: Vec<i64> = lane.iter().map(|&i| after[i]).collect();
        a.sort_unstable();
        b.sort_unstable();
        if a != b {
            return Err(format!(
                "lane #{} (parent cells {:?}) held multiset {:?} before the call and {:?} after",
                li, lane, a, b
            ));
        }
        for &i in lane {
            in_lane[i] = true;
        }
    }
    for i in 0..before.len() {
        if !in_lane[i] && before[i] != after[i] {
            return Err(format!(
                "parent cell {} is outside the lanes the call was given but changed from {} to {}",
                i, before[i], after[i]
            ));
        }
    }
    Ok(())
}
