//! Shrinks a failing scenario while the same violation class persists:
//! drop operations, drop array elements / lanes / guard cells, simplify the
//! view, rank-compress values, shorten request lists, and finally freeze the
//! entropy of every call into an explicit pivot script and shrink that.

use crate::elem::{num_of_raw, NumVal};
use crate::entropy::{Kind, Policy, TraceItem};
use crate::exec::Prop;
use crate::hist::HistScenario;
use crate::runner::AnyScn;
use crate::scenario::{Scenario, ViewDesc, Violation};
use ndarray::{ArrayD, Axis, IxDyn, Slice};
use std::time::{Duration, Instant};

const MAX_EXECS: usize = 6000;
const MAX_SECS: u64 = 25;
const CAND_TIMEOUT_MS: u64 = 3000;

/// run a candidate in its own thread so that a hanging candidate cannot hang the minimiser
fn failing(prop: Prop, cand: &AnyScn, class: &str) -> Option<Violation> {
    let (tx, rx) = std::sync::mpsc::channel();
    let c = cand.clone();
    let cl = class.to_string();
    let _ = std::thread::Builder::new().stack_size(crate::util::BIG_STACK).spawn(move || {
        let r = c.exec(prop);
        let _ = tx.send(r.violations.into_iter().find(|v| v.class == cl));
    });
    rx.recv_timeout(Duration::from_millis(CAND_TIMEOUT_MS)).ok().flatten()
}

pub fn minimise(prop: Prop, scn: AnyScn, v: &Violation) -> (AnyScn, Violation, bool) {
    if v.class == "hang" || v.class == "crash" {
        return (scn, v.clone(), false);
    }
    let t0 = Instant::now();
    let mut execs = 0usize;
    let mut best = scn;
    let mut bestv = v.clone();
    let mut progressed = false;
    'outer: loop {
        let cands: Vec<AnyScn> = match &best {
            AnyScn::Array(s) => array_candidates(prop, s, bestv.op_index).into_iter().map(AnyScn::Array).collect(),
            AnyScn::Hist(h) => hist_candidates(h).into_iter().map(AnyScn::Hist).collect(),
        };
        for c in cands {
            if execs >= MAX_EXECS || t0.elapsed().as_secs() >= MAX_SECS {
                break 'outer;
            }
            if c == best {
                continue;
            }
            execs += 1;
            if let Some(nv) = failing(prop, &c, &v.class) {
                best = c;
                bestv = nv;
                progressed = true;
                continue 'outer;
            }
        }
        break;
    }
    (best, bestv, progressed)
}

// ---------------------------------------------------------------------------

pub fn index_map(s: &Scenario) -> ArrayD<usize> {
    let n: usize = s.parent_shape.iter().product();
    let mut lin = ArrayD::from_shape_vec(IxDyn(&s.parent_shape), (0..n).collect::<Vec<usize>>()).unwrap();
    let mut v = lin.view_mut();
    for (ax, &(a, b, st)) in s.view.slices.iter().enumerate() {
        v.slice_axis_inplace(Axis(ax), Slice::new(a, Some(b), st));
    }
    let v = v.permuted_axes(IxDyn(&s.view.perm));
    v.as_standard_layout().to_owned()
}

fn plainify(s: &Scenario) -> Scenario {
    let idx = index_map(s);
    let mut t = s.clone();
    t.parent_shape = idx.shape().to_vec();
    t.data = idx.iter().map(|&c| s.data[c]).collect();
    t.view = ViewDesc { slices: t.parent_shape.iter().map(|&l| (0, l as isize, 1)).collect(), perm: (0..t.parent_shape.len()).collect() };
    t
}

/// keep only the listed physical elements (ascending parent position) of the view along parent axis `pa`
fn keep_elements(s: &Scenario, pa: usize, keep: &[usize]) -> Scenario {
    let (a, b, st) = s.view.slices[pa];
    let step = st.unsigned_abs();
    let a = a as usize;
    let b = b as usize;
    let plen = s.parent_shape[pa];
    let mut planes: Vec<usize> = (0..a).collect();
    for (j, &m) in keep.iter().enumerate() {
        let pos = a + m * step;
        planes.push(pos);
        if j + 1 < keep.len() {
            // gap planes following this element (or synthesize from the ones before when it was the last)
            for g in 1..step {
                let gp = if pos + g < b { pos + g } else { pos - g };
                planes.push(gp);
            }
        }
    }
    planes.extend(b..plen);
    let parent = ArrayD::from_shape_vec(IxDyn(&s.parent_shape), s.data.clone()).unwrap();
    let sel = parent.select(Axis(pa), &planes);
    let mut t = s.clone();
    t.parent_shape = sel.shape().to_vec();
    t.data = sel.iter().copied().collect();
    let k = keep.len();
    let span = if k == 0 { 0 } else { (k - 1) * step + 1 };
    t.view.slices[pa] = (a as isize, (a + span) as isize, st);
    t
}

fn trim_guards(s: &Scenario, pa: usize) -> Option<Scenario> {
    let (a, b, st) = s.view.slices[pa];
    let plen = s.parent_shape[pa];
    if a == 0 && b as usize == plen {
        return None;
    }
    let planes: Vec<usize> = (a as usize..b as usize).collect();
    let parent = ArrayD::from_shape_vec(IxDyn(&s.parent_shape), s.data.clone()).unwrap();
    let sel = parent.select(Axis(pa), &planes);
    let mut t = s.clone();
    t.parent_shape = sel.shape().to_vec();
    t.data = sel.iter().copied().collect();
    t.view.slices[pa] = (0, b - a, st);
    Some(t)
}

fn rank_compress(s: &Scenario) -> Option<Scenario> {
    let ty = s.elem;
    let mut vals: Vec<NumVal> = s.data.iter().filter(|&&r| !ty.is_missing_raw(r)).map(|&r| num_of_raw(ty, r)).collect();
    let cmp = |a: &NumVal, b: &NumVal| match (a, b) {
        (NumVal::I(x), NumVal::I(y)) => x.cmp(y),
        (x, y) => x.as_f64().partial_cmp(&y.as_f64()).unwrap_or(std::cmp::Ordering::Equal),
    };
    vals.sort_by(cmp);
    vals.dedup_by(|a, b| a.num_eq(*b));
    let mut t = s.clone();
    for r in t.data.iter_mut() {
        if ty.is_missing_raw(*r) {
            continue;
        }
        let v = num_of_raw(ty, *r);
        let rank = vals.binary_search_by(|x| cmp(x, &v)).ok()? as i128;
        *r = ty.raw_of_int(rank);
    }
    if t.data == s.data {
        None
    } else {
        Some(t)
    }
}

fn simple_policies() -> Vec<Policy> {
    vec![Policy::simple(Kind::Low, 0), Policy::simple(Kind::High, 0), Policy::simple(Kind::Mid, 0)]
}

/// freeze the entropy of each operation's primary call into an explicit script
fn freeze(prop: Prop, s: &Scenario) -> Option<Scenario> {
    if s.ops.iter().all(|o| o.policy.kind == Kind::Script) {
        return None;
    }
    let sc = AnyScn::Array(s.clone());
    let items = crate::util::with_big_stack(|| {
        crate::entropy::trace_enable(true);
        let _ = sc.exec(prop);
        let items = crate::entropy::trace_take();
        crate::entropy::trace_enable(false);
        items
    });
    let mut t = s.clone();
    let mut cur: Option<usize> = None;
    let mut done = vec![false; s.ops.len()];
    for it in items {
        match it {
            TraceItem::Mark(k) => cur = Some(k),
            TraceItem::Session(d) => {
                if let Some(k) = cur {
                    if k < t.ops.len() && !done[k] {
                        done[k] = true;
                        t.ops[k].policy = Policy::script(d.iter().map(|x| x.pick).collect());
                    }
                }
            }
        }
    }
    Some(t)
}

fn array_candidates(prop: Prop, s: &Scenario, fail_op: usize) -> Vec<Scenario> {
    let mut out = vec![];
    // 1. nothing after the failing operation matters
    if s.ops.len() > fail_op + 1 {
        let mut t = s.clone();
        t.ops.truncate(fail_op + 1);
        out.push(t);
    }
    // 2. drop one operation
    for i in 0..s.ops.len() {
        if s.ops.len() > 1 {
            let mut t = s.clone();
            t.ops.remove(i);
            out.push(t);
        }
    }
    // 3. simpler world
    let plain = s.view.slices.iter().zip(&s.parent_shape).all(|(&(a, b, st), &l)| a == 0 && b as usize == l && st == 1) && s.view.perm.iter().enumerate().all(|(i, &p)| i == p);
    if !plain {
        out.push(plainify(s));
    }
    if s.static_dim {
        let mut t = s.clone();
        t.static_dim = false;
        out.push(t);
    }
    for pa in 0..s.parent_shape.len() {
        if let Some(t) = trim_guards(s, pa) {
            out.push(t);
        }
    }
    // 4. fewer elements: halves first, then single elements
    for pa in 0..s.parent_shape.len() {
        let (a, b, st) = s.view.slices[pa];
        let span = (b - a).max(0) as usize;
        let step = st.unsigned_abs();
        let l = if span == 0 { 0 } else { (span - 1) / step + 1 };
        if l >= 2 {
            out.push(keep_elements(s, pa, &(0..l / 2).collect::<Vec<_>>()));
            out.push(keep_elements(s, pa, &(l / 2..l).collect::<Vec<_>>()));
        }
        if l >= 1 && l <= 40 {
            for m in 0..l {
                let keep: Vec<usize> = (0..l).filter(|&x| x != m).collect();
                out.push(keep_elements(s, pa, &keep));
            }
        }
    }
    // 5. simpler values
    if let Some(t) = rank_compress(s) {
        out.push(t);
    }
    // 6. simpler requests
    for (i, op) in s.ops.iter().enumerate() {
        for j in 0..op.idx.len() {
            if op.idx.len() > 1 {
                let mut t = s.clone();
                t.ops[i].idx.remove(j);
                out.push(t);
            }
            for nv in [0u64, op.idx[j] / 2, op.idx[j].saturating_sub(1)] {
                if nv != op.idx[j] {
                    let mut t = s.clone();
                    t.ops[i].idx[j] = nv;
                    out.push(t);
                }
            }
        }
        for j in 0..op.qs.len() {
            if op.qs.len() > 1 {
                let mut t = s.clone();
                t.ops[i].qs.remove(j);
                out.push(t);
            }
            for nq in [0.0, 0.5, 1.0] {
                if nq != op.qs[j] {
                    let mut t = s.clone();
                    t.ops[i].qs[j] = nq;
                    out.push(t);
                }
            }
        }
        if op.form != 0 {
            let mut t = s.clone();
            t.ops[i].form = 0;
            out.push(t);
        }
        if !op.inner.is_empty() {
            let mut t = s.clone();
            t.ops[i].inner = String::new();
            out.push(t);
        }
        for j in 0..op.aux.len() {
            for k in 0..op.aux[j].len() {
                if op.aux[j].len() > 1 && !matches!(op.name.as_str(), "weighted_axis" | "law_relabel" | "moments") {
                    let mut t = s.clone();
                    t.ops[i].aux[j].remove(k);
                    out.push(t);
                }
            }
        }
        // 7. simpler schedules
        if op.policy.kind != Kind::Script {
            for p in simple_policies() {
                if p.kind != op.policy.kind {
                    let mut t = s.clone();
                    t.ops[i].policy = p;
                    out.push(t);
                }
            }
        }
        for p in simple_policies() {
            if p.kind != op.alt.kind {
                let mut t = s.clone();
                t.ops[i].alt = p;
                out.push(t);
            }
        }
    }
    // 8. explicit pivot scripts, then shrink them
    if let Some(t) = freeze(prop, s) {
        out.push(t);
    }
    for (i, op) in s.ops.iter().enumerate() {
        if op.policy.kind == Kind::Script {
            let sc = &op.policy.script;
            if !sc.is_empty() {
                let mut t = s.clone();
                t.ops[i].policy.script.pop();
                out.push(t);
            }
            for j in 0..sc.len().min(24) {
                for nv in [0u64, sc[j] / 2, sc[j].saturating_sub(1)] {
                    if nv != sc[j] {
                        let mut t = s.clone();
                        t.ops[i].policy.script[j] = nv;
                        out.push(t);
                    }
                }
            }
        }
    }
    out
}

fn hist_candidates(h: &HistScenario) -> Vec<HistScenario> {
    let mut out = vec![];
    let d = h.edges.len();
    // single producer, delivered order
    if h.producers.len() > 1 {
        let del = h.delivered();
        let n = del.len();
        out.push(HistScenario { producers: vec![del], delivery: vec![0; n], forms: h.forms.iter().copied().take(n).collect(), ..h.clone() });
        return out;
    }
    let obs = h.producers.first().cloned().unwrap_or_default();
    let n = obs.len();
    let rebuild = |o: Vec<Vec<i64>>, forms: Vec<u8>, edges: Vec<Vec<i64>>| HistScenario { producers: vec![o.clone()], delivery: vec![0; o.len()], forms, edges, ..h.clone() };
    if n >= 2 {
        out.push(rebuild(obs[..n / 2].to_vec(), h.forms.iter().copied().take(n / 2).collect(), h.edges.clone()));
        out.push(rebuild(obs[n / 2..].to_vec(), h.forms.iter().copied().skip(n / 2).collect(), h.edges.clone()));
    }
    // chunks first (ddmin style), single observations only for short histories
    let mut chunk = n / 4;
    while chunk >= 2 && n > 8 {
        let mut startk = 0;
        while startk < n {
            let endk = (startk + chunk).min(n);
            let mut o = obs.clone();
            o.drain(startk..endk);
            let mut f = h.forms.clone();
            if endk <= f.len() {
                f.drain(startk..endk);
            }
            out.push(rebuild(o, f, h.edges.clone()));
            startk = endk;
        }
        chunk /= 4;
    }
    for k in 0..(if n <= 64 { n } else { 0 }) {
        let mut o = obs.clone();
        o.remove(k);
        let mut f = h.forms.clone();
        if k < f.len() {
            f.remove(k);
        }
        out.push(rebuild(o, f, h.edges.clone()));
    }
    for j in 0..d {
        for k in 0..h.edges[j].len() {
            let mut e = h.edges.clone();
            e[j].remove(k);
            out.push(rebuild(obs.clone(), h.forms.clone(), e));
        }
    }
    if d > 1 {
        for j in 0..d {
            let mut e = h.edges.clone();
            e.remove(j);
            let o: Vec<Vec<i64>> = obs
                .iter()
                .map(|x| {
                    let mut y = x.clone();
                    if j < y.len() {
                        y.remove(j);
                    }
                    y
                })
                .collect();
            out.push(rebuild(o, h.forms.clone(), e));
        }
    }
    if h.forms.iter().any(|&f| f != 0) {
        out.push(HistScenario { forms: vec![0; h.forms.len()], ..h.clone() });
    }
    if h.matrix_order != 0 {
        out.push(HistScenario { matrix_order: 0, ..h.clone() });
    }
    if h.edge_forms.iter().any(|&f| f != 0) {
        out.push(HistScenario { edge_forms: vec![], ..h.clone() });
    }
    if h.elem != "i32" {
        out.push(HistScenario { elem: "i32".into(), ..h.clone() });
    }
    out
}
