//! Shrinks a failing scenario while the same violation class persists.

use crate::exec::Prop;
use crate::runner::AnyScn;
use crate::scenario::Violation;

pub fn minimise(_prop: Prop, scn: AnyScn, v: &Violation) -> (AnyScn, Violation, bool) {
    (scn, v.clone(), false)
}
