//! Seeded generation of scenarios, swarm style: every run draws its own sizes,
//! element type, layout, value family, workload mix, fault subset and policies.

use crate::entropy::Policy;
use crate::exec::Prop;
use crate::hist::HistScenario;
use crate::scenario::{ElemTy, Op, Scenario, Strat, ViewDesc, ALL_STRATS};
use crate::util::{next_down, next_up, Rng};

#[derive(Clone, Copy, Debug, PartialEq)]
pub enum Tier {
    Quick,
    Thorough,
}

pub const ORD_TYPES: [ElemTy; 8] = [ElemTy::I8, ElemTy::I32, ElemTy::I64, ElemTy::U8, ElemTy::U64, ElemTy::N64, ElemTy::Boxed, ElemTy::Fat];
pub const NAN_TYPES: [ElemTy; 5] = [ElemTy::F64, ElemTy::F32, ElemTy::OptI32, ElemTy::OptU8, ElemTy::OptN64];
/// the other Option<integer> implementations of MaybeNan (same macro, but each is its own impl)
pub const RARE_NAN_TYPES: [ElemTy; 3] = [ElemTy::OptI64, ElemTy::OptI128, ElemTy::OptU16];

pub struct WorldSpec {
    pub ndim: usize,
    /// logical length per view axis (before permutation = per parent axis)
    pub lens: Vec<usize>,
    pub contiguous: bool,
}

/// Build parent shape + view descriptor for the given logical lengths.
/// Parent buffers stay below this many elements: offsets, steps and extra axes multiply, and a
/// huge lane inside a 6-D stepped parent would otherwise need gigabytes (and minutes).
const MAX_PARENT_ELEMS: usize = 400_000;

pub fn gen_view(rng: &mut Rng, lens: &[usize], plain: bool) -> (Vec<usize>, ViewDesc) {
    let (shape, view) = gen_view_raw(rng, lens, plain);
    if shape.iter().product::<usize>() <= MAX_PARENT_ELEMS {
        return (shape, view);
    }
    // too big: no offsets / steps / permutation, and if that is not enough only the longest axis keeps its length
    let (shape, view) = gen_view_raw(rng, lens, true);
    if shape.iter().product::<usize>() <= MAX_PARENT_ELEMS {
        return (shape, view);
    }
    let longest = (0..lens.len()).max_by_key(|&a| lens[a]).unwrap_or(0);
    let small: Vec<usize> = lens.iter().enumerate().map(|(a, &l)| if a == longest { l.min(MAX_PARENT_ELEMS) } else { l.min(1) }).collect();
    gen_view_raw(rng, &small, true)
}

fn gen_view_raw(rng: &mut Rng, lens: &[usize], plain: bool) -> (Vec<usize>, ViewDesc) {
    let nd = lens.len();
    let mut parent_shape = vec![];
    let mut slices = vec![];
    for &l in lens {
        let (step, o1, o2): (isize, usize, usize) = if plain {
            (1, 0, 0)
        } else {
            let step = *rng.pick(&[1isize, 1, 1, 2, 3, -1, -1, -2, -3]);
            (step, rng.below(3), rng.below(3))
        };
        let span = if l == 0 { 0 } else { (l - 1) * step.unsigned_abs() + 1 };
        parent_shape.push(o1 + span + o2);
        slices.push((o1 as isize, (o1 + span) as isize, step));
    }
    let mut perm: Vec<usize> = (0..nd).collect();
    if !plain && nd > 1 && rng.chance(1, 2) {
        rng.shuffle(&mut perm);
    }
    (parent_shape, ViewDesc { slices, perm })
}

#[derive(Clone, Copy, Debug, PartialEq)]
pub enum ValueStyle {
    TinyAlphabet,
    DistinctRanks,
    TwoValued,
    AllEqual,
    Extremes,
    Near2p52,
    SmallUniform,
    WideUniform,
    /// one value (the minimum, the maximum or one in the middle) makes up most of the cells
    Dominant,
}

pub const STYLES: [ValueStyle; 9] = [
    ValueStyle::TinyAlphabet,
    ValueStyle::DistinctRanks,
    ValueStyle::TwoValued,
    ValueStyle::AllEqual,
    ValueStyle::Extremes,
    ValueStyle::Near2p52,
    ValueStyle::SmallUniform,
    ValueStyle::WideUniform,
    ValueStyle::Dominant,
];

/// integer values (to be encoded by the element type); `cap` bounds |v| so
/// that differences stay representable when the property's domain requires it
pub fn gen_ints(rng: &mut Rng, ty: ElemTy, n: usize, style: ValueStyle, allow_extremes: bool) -> Vec<i128> {
    let (lo, hi) = ty.int_range();
    let (clo, chi) = if allow_extremes {
        (lo, hi)
    } else if ty.is_float() {
        (-(1i128 << 40), 1i128 << 40)
    } else if lo < 0 {
        (lo / 4, hi / 4)
    } else {
        // unsigned: higher - lower is always representable
        (0, hi)
    };
    let clampv = |v: i128| v.max(clo).min(chi);
    let uni = |rng: &mut Rng, a: i128, b: i128| -> i128 {
        let a = a.max(clo);
        let b = b.min(chi).max(a);
        let span = (b - a) as u128 + 1;
        if span > u64::MAX as u128 {
            a + ((rng.next() as u128 | ((rng.next() as u128) << 64)) % span) as i128
        } else {
            a + (rng.next() as u128 % span) as i128
        }
    };
    let base = uni(rng, -50, 50);
    match style {
        ValueStyle::TinyAlphabet => {
            let k = 1 + rng.below(4) as i128;
            (0..n).map(|_| clampv(base + uni(rng, 0, k - 1).min(k - 1))).collect()
        }
        ValueStyle::DistinctRanks => {
            let stride = 1 + rng.below(3) as i128;
            let mut v: Vec<i128> = (0..n as i128).map(|i| i * stride).collect();
            // keep them inside the type: shift into range
            let maxv = (n as i128 - 1).max(0) * stride;
            let off = if maxv > chi - clo { clo } else { uni(rng, clo.max(-60), (chi - maxv).min(60).max(clo)) };
            for x in v.iter_mut() {
                *x = clampv(*x + off);
            }
            rng.shuffle(&mut v);
            v
        }
        ValueStyle::TwoValued => {
            let a = clampv(base);
            let b = clampv(base + 1 + rng.below(5) as i128);
            (0..n).map(|_| if rng.chance(1, 2) { a } else { b }).collect()
        }
        ValueStyle::AllEqual => vec![clampv(base); n],
        ValueStyle::Extremes => {
            let pool = [clo, clo + 1, chi, chi - 1, 0i128.max(clo).min(chi), (-1i128).max(clo), 1i128.min(chi), (clo + chi) / 2];
            (0..n).map(|_| *rng.pick(&pool)).collect()
        }
        ValueStyle::Near2p52 => {
            let p = 1i128 << 52;
            if chi >= p - 1 {
                (0..n)
                    .map(|_| {
                        let s = if clo < 0 && rng.chance(1, 2) { -1 } else { 1 };
                        clampv(s * (p - 1 - rng.below(6) as i128))
                    })
                    .collect()
            } else {
                (0..n).map(|_| uni(rng, clo, chi)).collect()
            }
        }
        ValueStyle::SmallUniform => (0..n).map(|_| uni(rng, -100, 100)).collect(),
        ValueStyle::Dominant => {
            let pct = 60 + rng.below(38) as u32;
            let span = 1 + rng.below(40) as i128;
            let dom = match rng.below(3) {
                0 => clampv(base),
                1 => clampv(base + span),
                _ => clampv(base + span / 2),
            };
            (0..n).map(|_| if rng.chance(pct, 100) { dom } else { clampv(base + uni(rng, 0, span).min(span)) }).collect()
        }
        ValueStyle::WideUniform => (0..n).map(|_| uni(rng, clo, chi)).collect(),
    }
}

/// raw element encodings for `n` cells
pub fn gen_values(rng: &mut Rng, ty: ElemTy, n: usize, allow_extremes: bool, allow_special_floats: bool) -> (Vec<i64>, ValueStyle) {
    if ty == ElemTy::Zst {
        return (vec![0; n], ValueStyle::AllEqual);
    }
    let style = *rng.pick(&STYLES);
    let ints = gen_ints(rng, ty, n, style, allow_extremes);
    let mut raws: Vec<i64> = if ty.is_float() {
        // floats: integers scaled by an exactly representable factor, occasionally fractional noise
        let mut scale = *rng.pick(&[1.0, 1.0, 0.25, 0.5, 8.0]);
        if rng.chance(1, 8) {
            // huge or tiny magnitudes (differences stay finite): 2^+-k
            let k = rng.below(if ty == ElemTy::F32 { 60 } else { 900 }) as i32;
            scale = if rng.chance(1, 2) { 2f64.powi(k) } else { 2f64.powi(-k - 40) };
        }
        let frac = rng.chance(1, 6) && scale.abs() < 1e6 && scale.abs() > 1e-6;
        ints.iter()
            .map(|&v| {
                let mut x = v as f64 * scale;
                if frac {
                    x += (rng.below(7) as f64) * 0.1;
                }
                if allow_extremes && style == ValueStyle::Extremes {
                    x = *rng.pick(&[f64::MAX, -f64::MAX, 1e308, -1e308, 0.0, 1.0, -1.0, f64::MIN_POSITIVE, 5e-324]);
                }
                ty.raw_of_f64(x)
            })
            .collect()
    } else {
        ints.iter().map(|&v| ty.raw_of_int(v)).collect()
    };
    if ty.is_float() && allow_special_floats && rng.chance(1, 5) {
        for r in raws.iter_mut() {
            if rng.chance(1, 6) {
                *r = ty.raw_of_f64(*rng.pick(&[f64::INFINITY, f64::NEG_INFINITY, -0.0, 0.0]));
            }
        }
    }
    (raws, style)
}

/// make Ord-equal elements distinguishable: random tags for Keyed records,
/// a mix of 0.0 and -0.0 for floats (only where the property compares bit patterns)
pub fn add_identity_noise(rng: &mut Rng, ty: ElemTy, raws: &mut [i64]) {
    match ty {
        ElemTy::Keyed => {
            for r in raws.iter_mut() {
                *r = (*r & !0xffff_ffff) | rng.below(1 << 16) as i64;
            }
        }
        ElemTy::N64 | ElemTy::F64 | ElemTy::F32 | ElemTy::OptN64 => {
            if rng.chance(1, 3) {
                for r in raws.iter_mut() {
                    if rng.chance(1, 3) {
                        *r = ty.raw_of_f64(if rng.chance(1, 2) { 0.0 } else { -0.0 });
                    }
                }
            }
        }
        _ => {}
    }
}

/// overwrite some cells with the missing value according to a pattern
pub fn apply_missing(rng: &mut Rng, ty: ElemTy, raws: &mut [i64]) {
    if raws.is_empty() {
        return;
    }
    let n = raws.len();
    match rng.below(8) {
        0 => {}
        1 => {
            for r in raws.iter_mut() {
                *r = ty.missing_raw(rng.next());
            }
        }
        2 => raws[0] = ty.missing_raw(rng.next()),
        3 => raws[n - 1] = ty.missing_raw(rng.next()),
        k => {
            let dens = [10u32, 30, 50, 80][k as usize - 4];
            for r in raws.iter_mut() {
                if rng.chance(dens, 100) {
                    *r = ty.missing_raw(rng.next());
                }
            }
        }
    }
}

/// q values designed around the index boundaries of a lane of length n
pub fn gen_q(rng: &mut Rng, n: usize) -> f64 {
    let m = (n.max(1) - 1) as f64;
    let clamp = |x: f64| x.max(0.0).min(1.0);
    if n <= 1 {
        return *rng.pick(&[0.0, 1.0, 0.5, 0.3]);
    }
    match rng.below(12) {
        0 => 0.0,
        1 => 1.0,
        2 | 3 => {
            let k = rng.below(n) as f64;
            clamp(k / m)
        }
        4 => clamp(next_down(rng.below(n) as f64 / m)),
        5 => clamp(next_up(rng.below(n) as f64 / m)),
        6 => clamp((rng.below(n - 1) as f64 + 0.5) / m),
        7 => clamp(next_down((rng.below(n - 1) as f64 + 0.5) / m)),
        8 => clamp(next_up((rng.below(n - 1) as f64 + 0.5) / m)),
        9 => *rng.pick(&[5e-324, 1e-300, 1e-17, 1.0 - f64::EPSILON / 2.0, 0.5, 0.25, 0.75, 0.1, 0.9, -0.0, 2.2250738585072014e-308]),
        _ => rng.unit(),
    }
}

pub fn gen_strat(rng: &mut Rng) -> Strat {
    *rng.pick(&ALL_STRATS)
}

fn oor_index(rng: &mut Rng, n: usize) -> u64 {
    // every value returned is >= n: just past the end, far past it, and the
    // values where signed / narrower arithmetic wraps around
    let n = n as u64;
    let small = rng.below(n as usize + 3) as u64;
    let v = match rng.below(14) {
        0 | 1 => n,
        2 => n + 1,
        3 => n + 2 + rng.below(20) as u64,
        4 => u64::MAX,
        5 | 6 => u64::MAX - small,
        7 => u64::MAX / 2,
        8 => (u64::MAX / 2).wrapping_add(1 + small),
        9 => u64::MAX / 2 - small,
        10 => (1u64 << 32) + small,
        11 => (1u64 << 31) + small,
        12 => n.wrapping_add(rng.next() >> rng.below(60)),
        _ => n + rng.below(3) as u64,
    };
    v.max(n)
}

fn pick_lane(rng: &mut Rng, shape: &[usize]) -> Option<(Option<(usize, usize)>, usize)> {
    // returns (lane selector, lane length); None when no lane exists
    if shape.len() == 1 {
        return Some((None, shape[0]));
    }
    let a = rng.below(shape.len());
    let lanes: usize = shape.iter().enumerate().filter(|(i, _)| *i != a).map(|(_, &s)| s).product();
    if lanes == 0 {
        return None;
    }
    Some((Some((a, rng.below(lanes))), shape[a]))
}

/// the re-entrant element type is only used on small worlds (its comparisons draw entropy themselves)
fn maybe_reent(rng: &mut Rng, ty: ElemTy, lens: &[usize]) -> ElemTy {
    let total: usize = lens.iter().product();
    if rng.chance(1, 60) {
        return ElemTy::Zst;
    }
    if lens.iter().all(|&l| l <= 16) && total <= 64 && rng.chance(1, 10) {
        ElemTy::Reent
    } else {
        ty
    }
}

fn new_op(rng: &mut Rng, name: &str) -> Op {
    Op::new(name, Policy::random(rng), Policy::random(rng))
}

fn lens_for(rng: &mut Rng, nd: usize, lane_max: usize, other_max: usize, allow_zero: bool, thorough: bool) -> Vec<usize> {
    // a square-ish matrix now and then: long lanes *and* a large stride between their elements
    if nd == 2 && rng.chance(1, 150) {
        return vec![20 + rng.below(45), 20 + rng.below(45)];
    }
    // one axis is "the long one", the others stay small
    let long = rng.below(nd);
    let lo = if allow_zero && rng.chance(1, 12) { 0 } else { 1 };
    // a few long lanes in every tier: worst-case chains, round caps and size
    // thresholds inside the library (64, 128, 512, 1024 ...) are only reachable there
    let long_len = if rng.chance(1, if thorough { 60000 } else { 12000 }) {
        // a huge lane: recursion budgets, sampling schemes and counters of a few thousand
        2048 + rng.below(if thorough { 30000 } else { 11000 })
    } else if rng.chance(1, 300) {
        512 + rng.below(2100)
    } else if rng.chance(1, 40) {
        64 + rng.below(257)
    } else if rng.chance(1, 16) {
        lo.max(rng.below(101))
    } else if rng.chance(1, 2) {
        // bias towards small lengths, where the space saturates
        lo.max(rng.below(5.min(lane_max) + 1))
    } else {
        lo.max(rng.below(lane_max + 1))
    };
    // keep the whole view small when one axis is long
    let other_cap = if long_len >= 512 {
        1
    } else if long_len >= 64 {
        2
    } else {
        other_max
    };
    (0..nd)
        .map(|a| {
            if a == long {
                long_len
            } else if allow_zero && rng.chance(1, 15) {
                0
            } else if long_len >= 512 && rng.chance(1, 2) {
                2
            } else {
                1 + rng.below(other_cap)
            }
        })
        .collect()
}

fn fix_strat(ty: ElemTy, style: ValueStyle, s: Strat, rng: &mut Rng) -> Strat {
    // Linear on 64-bit integers is documented through f64: only below 2^52
    if s == Strat::Linear && matches!(ty, ElemTy::I64 | ElemTy::U64) && matches!(style, ValueStyle::Extremes | ValueStyle::WideUniform) {
        return *rng.pick(&[Strat::Lower, Strat::Higher, Strat::Nearest, Strat::Midpoint]);
    }
    s
}

fn q_ops(rng: &mut Rng, shape: &[usize], ty: ElemTy, style: ValueStyle, max_qs: usize, bulk_only: bool) -> Option<Op> {
    let nd = shape.len();
    let kind = if bulk_only { 2 + rng.below(2) } else { rng.below(4) };
    let (name, lane, axis, n) = match kind {
        0 | 2 => {
            let axis = rng.below(nd);
            (if kind == 0 { "quantile_axis" } else { "quantiles_axis" }, None, axis, shape[axis])
        }
        _ => {
            let (lane, n) = pick_lane(rng, shape)?;
            (if kind == 1 { "quantile1" } else { "quantiles1" }, lane, 0, n)
        }
    };
    if n == 0 {
        return None;
    }
    let mut op = new_op(rng, name);
    op.lane = lane;
    op.axis = axis;
    op.strat = fix_strat(ty, style, gen_strat(rng), rng);
    let cnt = if name.starts_with("quantiles") {
        if rng.chance(1, 25) {
            rng.below(4 * max_qs + 1)
        } else {
            rng.below(max_qs + 1)
        }
    } else {
        1
    };
    // huge lanes can cost O(n^2) per call (runs of equal elements): few requests there
    let cnt = if n >= 2048 { cnt.min(3) } else { cnt };
    op.qs = (0..cnt).map(|_| gen_q(rng, n)).collect();
    if cnt >= 2 && rng.chance(1, 3) {
        // repeat an entry / share a lower-higher index pair
        let j = rng.below(cnt);
        let k = rng.below(cnt);
        op.qs[j] = op.qs[k];
    }
    op.form = rng.below(5) as u8;
    Some(op)
}

/// length of a request list for a lane of length n: usually short, sometimes
/// at least as long as the lane
fn list_len(rng: &mut Rng, n: usize) -> usize {
    if n >= 2048 {
        // huge lanes can cost O(n^2) per call: few requests there
        return rng.below(4);
    }
    if n >= 24 && rng.chance(1, 6) {
        n + rng.below(n + 5)
    } else {
        rng.below(2 * n.min(16) + 1)
    }
}

/// a request list for a lane of length n: random entries, or a band of consecutive
/// ranks with a few gaps and as many repeats, in order or shuffled
fn gen_index_list(rng: &mut Rng, n: usize) -> Vec<u64> {
    if n >= 8 && rng.chance(1, 8) {
        let wmax = (n / 2).max(4);
        let w = if n >= 160 && rng.chance(1, 2) { 32 + rng.below((n / 4).saturating_sub(31).max(1)) } else { 4 + rng.below(wmax - 3) };
        let w = w.min(n);
        let start = rng.below(n - w + 1);
        let mut v: Vec<u64> = (start..start + w).map(|x| x as u64).collect();
        let holes = rng.below(3);
        for _ in 0..holes {
            if v.len() > 2 {
                let k = 1 + rng.below(v.len() - 2);
                v.remove(k);
                let d = v[rng.below(v.len())];
                let pos = rng.below(v.len() + 1);
                v.insert(pos, d);
            }
        }
        match rng.below(3) {
            0 => rng.shuffle(&mut v),
            1 => v.reverse(),
            _ => {}
        }
        return v;
    }
    let cnt = list_len(rng, n);
    (0..cnt).map(|_| rng.below(n) as u64).collect()
}

fn pick_storage(rng: &mut Rng) -> u8 {
    if rng.chance(3, 4) {
        0
    } else {
        1 + rng.below(3) as u8
    }
}

/// A rejected bulk request on a short lane followed by the identical request
/// on a longer lane of the same world, where it is valid (needs a 2-D view
/// whose two axes differ in length).
fn echo_ops(rng: &mut Rng, shape: &[usize]) -> Vec<Op> {
    if shape.len() != 2 || shape[0] == shape[1] || shape[0] == 0 || shape[1] == 0 {
        return vec![];
    }
    let (short_ax, long_ax) = if shape[0] < shape[1] { (0, 1) } else { (1, 0) };
    let (ns, nl) = (shape[short_ax], shape[long_ax]);
    let cnt = 1 + rng.below(5);
    let mut idx: Vec<u64> = (0..cnt).map(|_| rng.below(nl) as u64).collect();
    let pos = rng.below(cnt);
    idx[pos] = (ns + rng.below(nl - ns)) as u64; // valid on the long lane only
    let form = rng.below(5) as u8;
    let many = rng.chance(3, 4);
    let mut a = new_op(rng, if many { "select_many" } else { "select" });
    a.lane = Some((short_ax, rng.below(shape[long_ax])));
    a.idx = if many { idx.clone() } else { vec![idx[pos]] };
    a.form = form;
    let mut b = new_op(rng, if many { "select_many" } else { "select" });
    b.lane = Some((long_ax, rng.below(shape[short_ax])));
    b.idx = a.idx.clone();
    b.form = form;
    vec![a, b]
}

/// Arrangement of the values in memory (the generators above only decide the multiset):
/// sorted, reversed, organ pipe, periodic peaks, one constant lane.
fn rearrange(rng: &mut Rng, scn: &mut Scenario) {
    let n = scn.data.len();
    if n < 3 || scn.elem.is_maybe_nan() && !rng.chance(1, 2) {
        return;
    }
    let ty = scn.elem;
    let key = |r: i64| -> (i32, i128, f64) {
        if ty.is_missing_raw(r) {
            return (1, 0, 0.0);
        }
        match crate::elem::num_of_raw(ty, r) {
            crate::elem::NumVal::I(v) => (0, v, 0.0),
            crate::elem::NumVal::F(f) => (0, 0, f),
        }
    };
    let sort_asc = |d: &mut Vec<i64>| d.sort_by(|a, b| key(*a).partial_cmp(&key(*b)).unwrap_or(std::cmp::Ordering::Equal));
    // several long sibling lanes: a constant lane among them is worth trying often
    let vs = scn.view_shape();
    let long_siblings = vs.len() >= 2 && vs.iter().any(|&l| l >= 500) && vs.iter().product::<usize>() >= 2 * vs.iter().copied().max().unwrap_or(0);
    let choice = if long_siblings && rng.chance(1, 2) { 5 } else { rng.below(24) };
    match choice {
        0 => sort_asc(&mut scn.data),
        1 => {
            sort_asc(&mut scn.data);
            scn.data.reverse();
        }
        2 => {
            // organ pipe: ascending then descending
            sort_asc(&mut scn.data);
            let d = scn.data.clone();
            let (mut lo, mut hi) = (0usize, n - 1);
            for (k, v) in d.iter().enumerate() {
                if k % 2 == 0 {
                    scn.data[lo] = *v;
                    lo += 1;
                } else {
                    scn.data[hi] = *v;
                    hi = hi.saturating_sub(1);
                }
            }
        }
        3 | 4 => {
            // the largest values on every p-th position
            sort_asc(&mut scn.data);
            let p = 2 + rng.below(15);
            let d = scn.data.clone();
            let peaks = (n + p - 1) / p;
            let (small, large) = d.split_at(n - peaks);
            let (mut si, mut li) = (0, 0);
            let off = rng.below(p);
            for k in 0..n {
                if k % p == off % p && li < large.len() {
                    scn.data[k] = large[li];
                    li += 1;
                } else if si < small.len() {
                    scn.data[k] = small[si];
                    si += 1;
                } else {
                    scn.data[k] = large[li];
                    li += 1;
                }
            }
        }
        5 | 6 => {
            // one lane (along the longest view axis) becomes constant
            let im = crate::minimise::index_map(scn);
            if im.ndim() >= 1 && im.len() > 0 {
                let ax = (0..im.ndim()).max_by_key(|&a| im.shape()[a]).unwrap();
                let lanes: Vec<Vec<usize>> = im.lanes(ndarray::Axis(ax)).into_iter().map(|l| l.to_vec()).collect();
                if !lanes.is_empty() {
                    let l = &lanes[rng.below(lanes.len())];
                    if let Some(&first) = l.first() {
                        let v = scn.data[first];
                        if !ty.is_missing_raw(v) {
                            for &c in l {
                                scn.data[c] = v;
                            }
                        }
                    }
                }
            }
        }
        _ => {}
    }
}

/// A very wide matrix: reducing along the short axis gives tens of thousands of
/// tiny lanes whose elements are far apart in memory.
fn wide_matrix_scenario(prop: Prop, rng: &mut Rng) -> Option<Scenario> {
    let ty = match prop {
        Prop::C01 | Prop::C18 => *rng.pick(&[ElemTy::I32, ElemTy::N64, ElemTy::U8, ElemTy::Fat]),
        Prop::C03 => *rng.pick(&[ElemTy::I32, ElemTy::F64, ElemTy::OptI32, ElemTy::Keyed]),
        Prop::C14 => *rng.pick(&[ElemTy::F64, ElemTy::OptI32, ElemTy::OptI128]),
        _ => return None,
    };
    let k = 3 + rng.below(4);
    let wdt = 32768 + rng.below(3000);
    let parent_shape = vec![k, wdt];
    let total = k * wdt;
    let (mut data, style) = gen_values(rng, ty, total, false, false);
    if ty.is_maybe_nan() {
        for r in data.iter_mut() {
            if rng.chance(1, 5) {
                *r = ty.missing_raw(rng.next());
            }
        }
    }
    let view = ViewDesc { slices: vec![(0, k as isize, 1), (0, wdt as isize, 1)], perm: vec![0, 1] };
    let mut scn = Scenario { prop: prop.name().into(), elem: ty, static_dim: rng.chance(1, 2), parent_shape, data, view, ops: vec![] };
    let name = match prop {
        Prop::C14 => "quantile_axis_skipnan",
        Prop::C03 if ty.is_maybe_nan() => *rng.pick(&["quantile_axis_skipnan", "map_axis_skipnan"]),
        Prop::C18 => "quantiles_axis",
        _ => *rng.pick(&["quantile_axis", "quantiles_axis"]),
    };
    let mut op = new_op(rng, name);
    op.axis = 0;
    op.strat = fix_strat(ty, style, gen_strat(rng), rng);
    let cnt = if name == "quantiles_axis" { 1 + rng.below(3) } else { 1 };
    op.qs = (0..cnt).map(|_| gen_q(rng, k)).collect();
    op.inner = "select".into();
    op.idx = vec![rng.below(k) as u64];
    scn.ops.push(op);
    Some(scn)
}

pub fn gen_array_scenario(prop: Prop, rng: &mut Rng, tier: Tier) -> Scenario {
    if rng.chance(1, 40000) {
        if let Some(s) = wide_matrix_scenario(prop, rng) {
            return s;
        }
    }
    let mut scn = gen_array_scenario_inner(prop, rng, tier);
    rearrange(rng, &mut scn);
    retarget_to_run_boundaries(rng, &mut scn);
    scn
}

/// Ranks where the sorted lane changes value (ends of runs of equal elements)
/// are where off-by-one errors around duplicates show: move some requests there.
fn retarget_to_run_boundaries(rng: &mut Rng, scn: &mut Scenario) {
    if scn.ops.is_empty() || scn.data.is_empty() {
        return;
    }
    let names = ["select", "select_many", "quantile1", "quantiles1", "law_monotone", "law_sandwich", "law_permute", "law_relabel"];
    if !scn.ops.iter().any(|o| names.contains(&o.name.as_str())) {
        return;
    }
    let im = crate::minimise::index_map(scn);
    let ty = scn.elem;
    for k in 0..scn.ops.len() {
        if !names.contains(&scn.ops[k].name.as_str()) {
            continue;
        }
        let cells: Vec<usize> = match scn.ops[k].lane {
            None if im.ndim() == 1 => im.iter().copied().collect(),
            Some((a, l)) if a < im.ndim() => match im.lanes(ndarray::Axis(a)).into_iter().nth(l) {
                Some(x) => x.to_vec(),
                None => continue,
            },
            _ => continue,
        };
        let n = cells.len();
        if n < 3 || !rng.chance(if n >= 512 { 2 } else { 1 }, 3) {
            continue;
        }
        let mut vals: Vec<crate::elem::NumVal> = cells.iter().map(|&c| scn.data[c]).filter(|&r| !ty.is_missing_raw(r)).map(|r| crate::elem::num_of_raw(ty, r)).collect();
        if vals.len() != n {
            continue;
        }
        vals.sort_by(|a, b| match (a, b) {
            (crate::elem::NumVal::I(x), crate::elem::NumVal::I(y)) => x.cmp(y),
            (x, y) => x.as_f64().partial_cmp(&y.as_f64()).unwrap_or(std::cmp::Ordering::Equal),
        });
        let mut bounds: Vec<usize> = (1..n).filter(|&j| !vals[j].num_eq(vals[j - 1])).collect();
        if bounds.is_empty() {
            continue;
        }
        if bounds.len() > 64 {
            rng.shuffle(&mut bounds);
            bounds.truncate(64);
        }
        let pick = |rng: &mut Rng| -> usize {
            let j = *rng.pick(&bounds);
            (j + rng.below(3)).saturating_sub(1).min(n - 1)
        };
        let op = &mut scn.ops[k];
        for x in op.idx.iter_mut() {
            if (*x as u128) < n as u128 && rng.chance(1, 2) {
                *x = pick(rng) as u64;
            }
        }
        let m = (n - 1) as f64;
        let sorted_qs = op.name == "law_monotone";
        for q in op.qs.iter_mut() {
            if (0.0..=1.0).contains(q) && rng.chance(1, 2) {
                let base = pick(rng) as f64 / m;
                *q = match rng.below(4) {
                    0 => next_down(base),
                    1 => next_up(base),
                    _ => base,
                }
                .max(0.0)
                .min(1.0);
            }
        }
        if sorted_qs {
            op.qs.sort_by(|a, b| a.partial_cmp(b).unwrap());
        }
    }
}

fn gen_array_scenario_inner(prop: Prop, rng: &mut Rng, tier: Tier) -> Scenario {
    let thorough = tier == Tier::Thorough;
    match prop {
        Prop::C02 => {
            let ty = if rng.chance(1, 8) { ElemTy::Keyed } else { *rng.pick(&ORD_TYPES) };
            let big = if thorough { if rng.chance(1, 100) { 300 } else { 64 } } else { 12 };
            let nd = if rng.chance(1, 5) { 2 } else { 1 };
            let lens = lens_for(rng, nd, big, 3, true, thorough);
            let ty = maybe_reent(rng, ty, &lens);
            let flag_ = rng.chance(1, 4);
            let (parent_shape, view) = gen_view(rng, &lens, flag_);
            let total: usize = parent_shape.iter().product();
            let (mut data, _) = gen_values(rng, ty, total, ty != ElemTy::Keyed, true);
            add_identity_noise(rng, ty, &mut data);
            let mut scn = Scenario { prop: "C02".into(), elem: ty, static_dim: false, parent_shape, data, view, ops: vec![] };
            let shape = scn.view_shape();
            for _ in 0..1 + rng.below(6) {
                if rng.chance(1, 12) {
                    scn.ops.extend(echo_ops(rng, &shape));
                    continue;
                }
                if let Some((lane, n)) = pick_lane(rng, &shape) {
                    if n == 0 {
                        // the only in-range request on an empty lane: the empty index list
                        let mut op = new_op(rng, "select_many");
                        op.lane = lane;
                        op.form = rng.below(5) as u8;
                        op.storage = pick_storage(rng);
                        scn.ops.push(op);
                        continue;
                    }
                    // now and then a request that must be rejected sits inside the history (not judged here)
                    let reject = rng.chance(1, 25);
                    if rng.chance(1, 2) {
                        let mut op = new_op(rng, "select");
                        op.lane = lane;
                        op.idx = vec![if reject { oor_index(rng, n) } else { rng.below(n) as u64 }];
                        op.storage = pick_storage(rng);
                        scn.ops.push(op);
                    } else {
                        let mut op = new_op(rng, "select_many");
                        op.lane = lane;
                        op.idx = gen_index_list(rng, n);
                        if reject {
                            let pos = rng.below(op.idx.len() + 1);
                            op.idx.insert(pos, oor_index(rng, n));
                        }
                        op.form = rng.below(5) as u8;
                        op.storage = pick_storage(rng);
                        scn.ops.push(op);
                    }
                }
            }
            scn
        }
        Prop::C16 => {
            let ty = *rng.pick(&ORD_TYPES);
            let big = if thorough { 64 } else { 10 };
            let nd = if rng.chance(1, 6) { 2 } else { 1 };
            let lens = lens_for(rng, nd, big, 3, true, thorough);
            let ty = maybe_reent(rng, ty, &lens);
            let flag_ = rng.chance(1, 3);
            let (parent_shape, view) = gen_view(rng, &lens, flag_);
            let total: usize = parent_shape.iter().product();
            let (data, _) = gen_values(rng, ty, total, true, true);
            let mut scn = Scenario { prop: "C16".into(), elem: ty, static_dim: false, parent_shape, data, view, ops: vec![] };
            let shape = scn.view_shape();
            let fault_pct = *rng.pick(&[0u32, 15, 35, 60]);
            for _ in 0..1 + rng.below(5) {
                let fault = rng.chance(fault_pct, 100);
                if rng.chance(1, 12) {
                    scn.ops.extend(echo_ops(rng, &shape));
                    continue;
                }
                match rng.below(10) {
                    0..=2 => {
                        if let Some((lane, n)) = pick_lane(rng, &shape) {
                            if !fault && n == 0 {
                                continue;
                            }
                            let mut op = new_op(rng, "select");
                            op.lane = lane;
                            op.idx = vec![if fault { oor_index(rng, n) } else { rng.below(n) as u64 }];
                            op.storage = pick_storage(rng);
                            scn.ops.push(op);
                        }
                    }
                    3..=5 => {
                        if let Some((lane, n)) = pick_lane(rng, &shape) {
                            let mut op = new_op(rng, "select_many");
                            op.lane = lane;
                            let cnt = if rng.chance(1, 8) { list_len(rng, n) } else { rng.below(n.min(8) + 3) };
                            op.idx = (0..cnt).filter_map(|_| if n > 0 { Some(rng.below(n) as u64) } else { None }).collect();
                            op.storage = pick_storage(rng);
                            if fault {
                                let k = 1 + rng.below(2);
                                for _ in 0..k {
                                    let pos = rng.below(op.idx.len() + 1);
                                    op.idx.insert(pos, oor_index(rng, n));
                                }
                            }
                            op.form = rng.below(5) as u8;
                            scn.ops.push(op);
                        }
                    }
                    6..=7 => {
                        if let Some((lane, n)) = pick_lane(rng, &shape) {
                            if !fault && n == 0 {
                                continue;
                            }
                            let mut op = new_op(rng, "partition");
                            op.lane = lane;
                            op.idx = vec![if fault { oor_index(rng, n) } else { rng.below(n) as u64 }];
                            scn.ops.push(op);
                        }
                    }
                    8 => {
                        let mut op = new_op(rng, "bins_index");
                        op.form = rng.below(5) as u8;
                        let ne = rng.below(6);
                        let edges: Vec<i64> = (0..ne).map(|_| rng.range(-5, 5)).collect();
                        let mut d = edges.clone();
                        d.sort_unstable();
                        d.dedup();
                        let nb = d.len().saturating_sub(1);
                        op.aux = vec![edges];
                        op.idx = vec![if fault || nb == 0 { oor_index(rng, nb) } else { rng.below(nb) as u64 }];
                        scn.ops.push(op);
                    }
                    _ if rng.chance(1, 8) => {
                        // a grid with many axes / many bins: the total number of cells overflows usize
                        let mut op = new_op(rng, "grid_index");
                        op.form = rng.below(5) as u8;
                        let na = *rng.pick(&[7usize, 11, 16, 22, 33, 64, 70]);
                        let nb = *rng.pick(&[2usize, 3, 16, 17, 64, 1000]);
                        let bad_axis = rng.below(na);
                        for j in 0..na {
                            let l = if rng.chance(1, 6) { 1 + rng.below(4) } else { nb };
                            op.aux.push((0..=l as i64).collect());
                            op.idx.push(if fault && j == bad_axis { oor_index(rng, l) } else { rng.below(l) as u64 });
                        }
                        scn.ops.push(op);
                    }
                    _ => {
                        let mut op = new_op(rng, "grid_index");
                        op.form = rng.below(5) as u8;
                        let na = if rng.chance(1, 12) { 0 } else { 1 + rng.below(3) };
                        let mut lens = vec![];
                        for _ in 0..na {
                            let ne = rng.below(5) + if rng.chance(1, 5) { 0 } else { 1 };
                            let edges: Vec<i64> = (0..ne).map(|_| rng.range(-5, 5)).collect();
                            let mut d = edges.clone();
                            d.sort_unstable();
                            d.dedup();
                            lens.push(d.len().saturating_sub(1));
                            op.aux.push(edges);
                        }
                        let bad_axis = if na == 0 { 0 } else { rng.below(na) };
                        for (j, &l) in lens.iter().enumerate() {
                            op.idx.push(if l == 0 || (fault && j == bad_axis) { oor_index(rng, l) } else { rng.below(l) as u64 });
                        }
                        scn.ops.push(op);
                    }
                }
            }
            scn
        }
        Prop::C01 | Prop::C18 | Prop::C19 => {
            let ty = *rng.pick(&ORD_TYPES);
            let lane_max = if thorough { if rng.chance(1, 20) { 200 } else { 40 } } else { 24 };
            let nd = match prop {
                Prop::C19 => 1 + rng.weighted(&[3, 3, 1]),
                _ => 1 + rng.weighted(&[40, 40, 20, 10, 2, 1]),
            };
            let flag_ = prop == Prop::C01 && rng.chance(1, 4);
            let lens = lens_for(rng, nd, lane_max, if nd >= 3 { 3 } else { 4 }, flag_, thorough);
            let flag_ = rng.chance(1, 4);
            let (parent_shape, view) = gen_view(rng, &lens, flag_);
            let total: usize = parent_shape.iter().product();
            let allow_ext = prop == Prop::C01;
            let (data, style) = gen_values(rng, ty, total, allow_ext, false);
            let mut scn = Scenario { prop: prop.name().into(), elem: ty, static_dim: rng.chance(1, 2), parent_shape, data, view, ops: vec![] };
            let shape = scn.view_shape();
            let nops = 1 + rng.below(3);
            for _ in 0..nops {
                match prop {
                    Prop::C01 => {
                        if let Some(op) = q_ops(rng, &shape, ty, style, if thorough { 32 } else { 8 }, false) {
                            scn.ops.push(op);
                        }
                    }
                    Prop::C18 => {
                        if rng.chance(3, 4) {
                            if let Some(op) = q_ops(rng, &shape, ty, style, if thorough { 32 } else { 8 }, true) {
                                scn.ops.push(op);
                            }
                        } else if let Some((lane, n)) = pick_lane(rng, &shape) {
                            if n > 0 {
                                let mut op = new_op(rng, "select_many");
                                op.lane = lane;
                                op.idx = gen_index_list(rng, n);
                                op.form = rng.below(5) as u8;
                                scn.ops.push(op);
                            }
                        }
                    }
                    _ => {
                        if let Some((lane, n)) = pick_lane(rng, &shape) {
                            if n == 0 {
                                continue;
                            }
                            let which = rng.below(4);
                            let name = ["law_monotone", "law_sandwich", "law_permute", "law_relabel"][which];
                            let mut op = new_op(rng, name);
                            op.lane = lane;
                            op.strat = fix_strat(ty, style, gen_strat(rng), rng);
                            match which {
                                0 => {
                                    // a dense grid around the index boundaries, sorted ascending
                                    let cnt = 2 + rng.below(if thorough { 14 } else { 8 });
                                    let mut qs: Vec<f64> = (0..cnt).map(|_| gen_q(rng, n)).collect();
                                    if n >= 4 && n <= 80 && rng.chance(1, 6) {
                                        // the full grid k/(N-1), possibly without one interior point
                                        let skip = if rng.chance(1, 2) { 1 + rng.below(n - 2) } else { n };
                                        qs = (0..n).filter(|&k| k != skip).map(|k| (k as f64 / (n - 1) as f64).min(1.0)).collect();
                                    }
                                    qs.sort_by(|a, b| a.partial_cmp(b).unwrap());
                                    op.qs = qs;
                                    op.form = rng.below(5) as u8;
                                }
                                3 => {
                                    op.strat = *rng.pick(&[Strat::Lower, Strat::Higher, Strat::Nearest]);
                                    op.qs = vec![gen_q(rng, n)];
                                    op.aux = vec![vec![rng.below(3) as i64, 1 + rng.below(4) as i64, rng.range(-20, 20)]];
                                }
                                _ => op.qs = vec![gen_q(rng, n)],
                            }
                            scn.ops.push(op);
                        }
                    }
                }
            }
            if prop == Prop::C18 && rng.chance(1, 3) {
                scn.ops.push(gen_det_bulk_op(rng));
            }
            scn
        }
        Prop::C03 => {
            let ty = match rng.below(10) {
                0..=1 => ElemTy::I32,
                2 => ElemTy::Keyed,
                3..=4 => ElemTy::F64,
                5..=6 => ElemTy::OptI32,
                7 => *rng.pick(&ORD_TYPES),
                8 => *rng.pick(&RARE_NAN_TYPES),
                _ => *rng.pick(&NAN_TYPES),
            };
            let lane_max = if thorough { 40 } else { 12 };
            let nd = 1 + rng.weighted(&[30, 40, 20, 0, 1, 1]);
            let flag_ = rng.chance(1, 10);
            let lens = lens_for(rng, nd, lane_max, 3, flag_, thorough);
            let flag_ = rng.chance(1, 8);
            let (parent_shape, view) = gen_view(rng, &lens, flag_);
            let total: usize = parent_shape.iter().product();
            let (mut data, style) = gen_values(rng, ty, total, false, false);
            add_identity_noise(rng, ty, &mut data);
            if ty.is_maybe_nan() {
                apply_missing(rng, ty, &mut data);
            }
            let mut scn = Scenario { prop: "C03".into(), elem: ty, static_dim: rng.chance(1, 2), parent_shape, data, view, ops: vec![] };
            let shape = scn.view_shape();
            for _ in 0..1 + rng.below(5) {
                if ty.is_maybe_nan() {
                    if let Some(op) = gen_nan_mut_op(rng, &shape) {
                        scn.ops.push(op);
                    }
                } else {
                    match rng.below(4) {
                        0 => {
                            if let Some((lane, n)) = pick_lane(rng, &shape) {
                                if n > 0 {
                                    let mut op = new_op(rng, "partition");
                                    op.lane = lane;
                                    op.idx = vec![rng.below(n) as u64];
                                    op.storage = pick_storage(rng);
                                    scn.ops.push(op);
                                }
                            }
                        }
                        1 => {
                            if let Some((lane, n)) = pick_lane(rng, &shape) {
                                if n > 0 {
                                    let many = rng.chance(1, 2);
                                    let mut op = new_op(rng, if many { "select_many" } else { "select" });
                                    op.lane = lane;
                                    let cnt = if many { if rng.chance(1, 5) { list_len(rng, n) } else { rng.below(n.min(8) + 2) } } else { 1 };
                                    op.idx = (0..cnt).map(|_| rng.below(n) as u64).collect();
                                    op.storage = pick_storage(rng);
                                    op.form = rng.below(5) as u8;
                                    scn.ops.push(op);
                                }
                            }
                        }
                        _ => {
                            if let Some(mut op) = q_ops(rng, &shape, ty, style, if thorough { 32 } else { 12 }, false) {
                                if !op.name.ends_with('1') && rng.chance(1, 5) {
                                    // the same routine on an owned copy, now and then with a request it must reject
                                    op.storage = 1;
                                    if rng.chance(1, 4) && !op.qs.is_empty() {
                                        let k = rng.below(op.qs.len());
                                        op.qs[k] = *rng.pick(&[-0.25, 1.5, 2.0, f64::INFINITY, -1e-9]);
                                    }
                                }
                                scn.ops.push(op);
                            }
                        }
                    }
                }
            }
            scn
        }
        Prop::C14 => {
            let ty = match rng.below(11) {
                0..=2 => ElemTy::F64,
                3 => ElemTy::F32,
                4..=6 => ElemTy::OptI32,
                7 => ElemTy::OptN64,
                8 => ElemTy::OptN64,
                9 => *rng.pick(&RARE_NAN_TYPES),
                _ => ElemTy::OptU8,
            };
            let lane_max = if thorough { 40 } else { 12 };
            let nd = 1 + rng.weighted(&[30, 40, 20, 0, 1, 1]);
            let flag_ = rng.chance(1, 10);
            let lens = lens_for(rng, nd, lane_max, 3, flag_, thorough);
            let flag_ = rng.chance(1, 5);
            let (parent_shape, view) = gen_view(rng, &lens, flag_);
            let total: usize = parent_shape.iter().product();
            let (mut data, _) = gen_values(rng, ty, total, false, false);
            add_identity_noise(rng, ty, &mut data);
            let mut has_inf = false;
            if ty.is_float() && rng.chance(1, 10) {
                // one kind of infinity; interpolating strategies are then outside the domain
                has_inf = true;
                let inf = if rng.chance(1, 2) { f64::INFINITY } else { f64::NEG_INFINITY };
                for r in data.iter_mut() {
                    if rng.chance(1, 5) {
                        *r = ty.raw_of_f64(inf);
                    }
                }
            }
            apply_missing(rng, ty, &mut data);
            let mut scn = Scenario { prop: "C14".into(), elem: ty, static_dim: rng.chance(1, 2), parent_shape, data, view, ops: vec![] };
            let shape = scn.view_shape();
            for _ in 0..1 + rng.below(4) {
                if rng.chance(3, 5) {
                    if let Some(op) = gen_nan_mut_op(rng, &shape) {
                        scn.ops.push(op);
                    }
                } else {
                    let name = *rng.pick(&["fold_skipnan", "indexed_fold_skipnan", "visit_skipnan", "fold_axis_skipnan", "min_skipnan", "max_skipnan", "argmin_skipnan", "argmax_skipnan"]);
                    let mut op = new_op(rng, name);
                    op.axis = rng.below(shape.len());
                    scn.ops.push(op);
                }
            }
            if has_inf {
                for op in scn.ops.iter_mut() {
                    if !op.strat.selecting() {
                        op.strat = *rng.pick(&[Strat::Lower, Strat::Higher, Strat::Nearest]);
                    }
                }
            }
            scn
        }
        Prop::C11 => unreachable!(),
    }
}

fn gen_nan_mut_op(rng: &mut Rng, shape: &[usize]) -> Option<Op> {
    let nd = shape.len();
    let inner = *rng.pick(&["", "select", "partition", "select_many", "quantile"]);
    match rng.below(3) {
        0 => {
            let (lane, n) = pick_lane(rng, shape)?;
            let mut op = new_op(rng, "remove_nan");
            op.lane = lane;
            op.inner = inner.to_string();
            let cnt = if inner == "select_many" { rng.below(6) } else { 1 };
            op.idx = (0..cnt).map(|_| rng.below(n.max(1) * 2) as u64).collect();
            op.qs = vec![gen_q(rng, n.max(1))];
            op.strat = gen_strat(rng);
            Some(op)
        }
        1 => {
            let axis = rng.below(nd);
            let mut op = new_op(rng, "quantile_axis_skipnan");
            op.axis = axis;
            let nn = 1 + rng.below(shape[axis].max(1));
            op.qs = vec![gen_q(rng, nn)];
            if rng.chance(1, 30) {
                // a request that must be rejected, exactly as the plain operation rejects it
                op.qs = vec![*rng.pick(&[-0.1, 1.5, 2.0, -1e-300, 1.0 + f64::EPSILON, f64::INFINITY, f64::NEG_INFINITY, -5e-324])];
            }
            op.strat = gen_strat(rng);
            Some(op)
        }
        _ => {
            let axis = rng.below(nd);
            let mut op = new_op(rng, "map_axis_skipnan");
            op.axis = axis;
            op.inner = inner.to_string();
            let n = shape[axis];
            let cnt = if inner == "select_many" { rng.below(6) } else { 1 };
            op.idx = (0..cnt).map(|_| rng.below(n.max(1) * 2) as u64).collect();
            op.qs = vec![gen_q(rng, n.max(1))];
            op.strat = gen_strat(rng);
            Some(op)
        }
    }
}

/// the deterministic members of C18: bulk central moments and per-axis weighted statistics
pub fn gen_det_bulk_op(rng: &mut Rng) -> Op {
    if rng.chance(1, 2) {
        let mut op = new_op(rng, "moments");
        let n = if rng.chance(1, 30) { 200 + rng.below(900) } else { 1 + rng.below(30) };
        op.idx = vec![rng.below(11) as u64];
        // aux: data, [scale selector], [element kind: 0 f64, 1 f32], [offset added to every value]
        let offset = if rng.chance(1, 3) { *rng.pick(&[1000i64, 100_000, -7_000, 1 << 20]) } else { 0 };
        let mut data: Vec<i64> = (0..n).map(|_| rng.range(-400, 400)).collect();
        if rng.chance(1, 5) {
            // symmetric data: the mean (and the shifted sum) is exactly zero
            let half: Vec<i64> = data.iter().take(n / 2 + 1).copied().collect();
            data = half.iter().flat_map(|&v| [v, -v]).collect();
        }
        let offset = if data.len() != n { 0 } else { offset };
        // shape / layout of the moment data: 1-D, or the same values as a small 2-D / 3-D array in C / F order or with reversed axes
        let len = data.len();
        let mut shape: Vec<i64> = vec![len as i64];
        if rng.chance(1, 2) {
            for d0 in [2usize, 3, 4, 5, 7] {
                if len % d0 == 0 && len / d0 >= 1 && rng.chance(1, 2) {
                    let rest = len / d0;
                    shape = if rest % 2 == 0 && rng.chance(1, 2) { vec![d0 as i64, 2, (rest / 2) as i64] } else { vec![d0 as i64, rest as i64] };
                    break;
                }
            }
        }
        op.aux = vec![data, vec![rng.range(0, 8)], vec![rng.below(2) as i64], vec![offset], shape, vec![rng.below(3) as i64]];
        op
    } else {
        let mut op = new_op(rng, "weighted_axis");
        let nd = 1 + rng.below(3);
        let mut shape: Vec<i64> = (0..nd).map(|_| 1 + rng.below(5) as i64).collect();
        let axis = rng.below(nd);
        if rng.chance(1, 25) {
            // a long reduction axis (summation-order thresholds), the other axes stay tiny
            for (j, s) in shape.iter_mut().enumerate() {
                *s = if j == axis { 500 + rng.below(700) as i64 } else { 1 + rng.below(2) as i64 };
            }
        }
        let total: i64 = shape.iter().product();
        op.axis = axis;
        let mut data: Vec<i64> = (0..total).map(|_| rng.range(-400, 400)).collect();
        if rng.chance(1, 12) {
            // a few huge values or infinities (see detbulk.rs for the encoding)
            for v in data.iter_mut() {
                if rng.chance(1, 4) {
                    *v = *rng.pick(&[2_000_000i64, -2_000_000, 1_500_000, -1_500_000, 3_999_999]);
                }
            }
        }
        // weights: mostly positive, sometimes with zeros (leading / everywhere) or mixed signs
        let wmode = rng.below(6);
        let weights: Vec<i64> = (0..shape[axis])
            .map(|j| match wmode {
                0 => if j == 0 || rng.chance(1, 3) { 0 } else { rng.range(1, 40) },
                1 => rng.range(-20, 20),
                2 => 0,
                _ => rng.range(1, 40),
            })
            .collect();
        // aux: shape, data, weights, [elem kind: 0 f64, 1 i64, 2 f32], [layout: 0 C, 1 F]
        op.aux = vec![shape, data, weights, vec![rng.below(3) as i64], vec![rng.below(2) as i64], vec![rng.below(4) as i64]];
        op.idx = vec![if rng.chance(1, 30) { 99 } else { rng.below(5) as u64 }, rng.below(2) as u64]; // ddof = idx[0]/4 in [0,1]; idx[1]: statically-dimensioned arrays
        op
    }
}

pub fn gen_hist_scenario(rng: &mut Rng, tier: Tier) -> HistScenario {
    let d = 1 + rng.weighted(&[4, 3, 2]);
    let elem = match rng.below(9) {
        0..=3 => "i32",
        4..=7 => "N64",
        _ => "wide",
    };
    // value family of this run: small integers, wide (type-wide) values, or many edges
    let family = rng.weighted(&[6, 2, 2]);
    let (vlo, vhi): (i64, i64) = match family {
        1 => {
            if elem == "i32" {
                (i32::MIN as i64, i32::MAX as i64)
            } else if elem == "wide" {
                (-(1 << 50), 1 << 50)
            } else {
                (-(1 << 39), 1 << 39)
            }
        }
        2 => (-150, 150),
        _ => (-6, 6),
    };
    let mut edges = vec![];
    for _ in 0..d {
        let ne = if rng.chance(1, 12) {
            rng.below(2)
        } else if family == 2 {
            let cap = if d != 1 { 12 } else if rng.chance(1, 3) { 220 } else { 60 };
            2 + rng.below(cap)
        } else {
            2 + rng.below(5)
        };
        let mut e: Vec<i64> = (0..ne).map(|_| rng.range(vlo, vhi)).collect();
        if family == 1 && ne > 0 && rng.chance(1, 2) {
            // type limits as edges
            e[0] = vlo;
            if ne > 1 {
                e[1] = vhi;
            }
        }
        if elem == "N64" && ne > 0 && rng.chance(1, 10) {
            let k = rng.below(ne);
            e[k] = if rng.chance(1, 2) { crate::hist::POS_INF } else { crate::hist::NEG_INF };
        }
        edges.push(e);
    }
    let np = 1 + rng.below(4);
    let max_hist = if tier == Tier::Thorough { 400 } else { 40 };
    let total = if rng.chance(1, 20000) {
        // batch / buffer sizes of 2^14 and beyond
        16500 + rng.below(9000)
    } else if rng.chance(1, 400) {
        // a very long history: batch / buffer thresholds inside the library
        2100 + rng.below(3000)
    } else if rng.chance(1, 60) {
        // a long history: counters pass every small power of two
        300 + rng.below(900)
    } else if rng.chance(1, 2) {
        rng.below(9)
    } else {
        rng.below(max_hist + 1)
    };
    let outside_pct = *rng.pick(&[0u32, 10, 30, 60]);
    let repeat_pct = *rng.pick(&[0u32, 0, 50, 95]);
    let mut producers: Vec<Vec<Vec<i64>>> = vec![vec![]; np];
    let mut last: Option<Vec<i64>> = None;
    for _ in 0..total {
        let p = rng.below(np);
        if let Some(l) = &last {
            if rng.chance(repeat_pct, 100) {
                producers[p].push(l.clone());
                continue;
            }
        }
        let obs: Vec<i64> = (0..d)
            .map(|j| {
                let mut e = edges[j].clone();
                e.sort_unstable();
                e.dedup();
                if e.is_empty() {
                    return rng.range(vlo, vhi);
                }
                let (lo, hi) = (e[0], *e.last().unwrap());
                let clampv = |v: i64| if elem == "i32" { v.max(i32::MIN as i64).min(i32::MAX as i64) } else { v.max(crate::hist::NEG_INF).min(crate::hist::POS_INF) };
                if rng.chance(outside_pct, 100 * d as u32) {
                    match rng.below(4) {
                        0 => clampv(lo.saturating_sub(1 + rng.below(2) as i64)),
                        1 => hi,
                        2 if elem == "N64" => *rng.pick(&[crate::hist::POS_INF, crate::hist::NEG_INF]),
                        _ => clampv(hi.saturating_add(1 + rng.below(2) as i64)),
                    }
                } else if rng.chance(1, 3) {
                    *rng.pick(&e)
                } else if rng.chance(1, 4) && e.len() >= 2 {
                    // just below an edge
                    clampv(e[1 + rng.below(e.len() - 1)].saturating_sub(1))
                } else {
                    rng.range(lo.max(vlo.min(lo)), hi)
                }
            })
            .collect();
        last = Some(obs.clone());
        producers[p].push(obs);
    }
    // delivery scheduler
    let mut delivery = vec![];
    let mut left: Vec<usize> = producers.iter().map(|p| p.len()).collect();
    let mode = rng.below(4);
    let mut cur = 0usize;
    while left.iter().any(|&l| l > 0) {
        let p = match mode {
            0 => {
                cur = (cur + 1) % np;
                cur
            }
            1 => rng.below(np),
            2 => {
                if rng.chance(1, 5) {
                    cur = rng.below(np);
                }
                cur
            }
            _ => (0..np).find(|&p| left[p] > 0).unwrap(),
        };
        if left[p] > 0 {
            left[p] -= 1;
            delivery.push(p);
        } else if mode == 2 {
            cur = rng.below(np);
        }
    }
    let forms = (0..delivery.len()).map(|_| rng.below(5) as u8).collect();
    let mut edge_forms: Vec<u8> = (0..d).map(|_| if rng.chance(1, 2) { 0 } else { rng.below(5) as u8 }).collect();
    if rng.chance(1, 10) {
        // the grid is the result of clone_from into a larger existing grid / bins
        edge_forms[0] = 5 + rng.below(2) as u8;
    }
    HistScenario { elem: elem.to_string(), edges, producers, delivery, forms, matrix_order: rng.below(4) as u8, edge_forms }
}
