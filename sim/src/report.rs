//! Replay files, known findings, evidence files.

use crate::exec::Prop;
use crate::gen::Tier;
use crate::runner::{generate, AnyScn, BatchOutcome};
use crate::scenario::Violation;
use serde_json::{json, Value};
use std::collections::BTreeSet;
use std::path::{Path, PathBuf};
use std::sync::OnceLock;

pub fn verif_dir() -> PathBuf {
    if let Ok(d) = std::env::var("VERIF_DIR") {
        return PathBuf::from(d);
    }
    // the binary lives in <verif>/sim/target/<profile>/simctl
    let exe = std::env::current_exe().unwrap_or_else(|_| PathBuf::from("/verif/sim/target/release/simctl"));
    let mut p = exe.clone();
    for _ in 0..4 {
        p = p.parent().map(|x| x.to_path_buf()).unwrap_or_else(|| PathBuf::from("/verif"));
    }
    if p.join("properties.jsonl").exists() {
        p
    } else {
        PathBuf::from("/verif")
    }
}

pub fn profile_name() -> &'static str {
    if cfg!(debug_assertions) {
        "relcheck(debug-assertions+overflow-checks)"
    } else {
        "release"
    }
}

// ------------------------------------------------------------------ known findings

struct Known {
    /// (property, class) listed as `finding:`
    findings: BTreeSet<(String, String)>,
    lines: Vec<String>,
}

static KNOWN: OnceLock<Known> = OnceLock::new();
static CURRENT_PROP: OnceLock<String> = OnceLock::new();

pub fn load_known(prop: &str) {
    let _ = CURRENT_PROP.set(prop.to_string());
    KNOWN.get_or_init(|| {
        let mut k = Known { findings: BTreeSet::new(), lines: vec![] };
        if let Ok(text) = std::fs::read_to_string(verif_dir().join("known-findings.txt")) {
            for line in text.lines() {
                let l = line.trim();
                if let Some(rest) = l.strip_prefix("finding:") {
                    let mut p = None;
                    let mut c = None;
                    for tok in rest.split_whitespace() {
                        if let Some(x) = tok.strip_prefix("property=") {
                            p = Some(x.to_string());
                        }
                        if let Some(x) = tok.strip_prefix("class=") {
                            c = Some(x.to_string());
                        }
                    }
                    if let (Some(p), Some(c)) = (p, c) {
                        k.findings.insert((p, c));
                        k.lines.push(l.to_string());
                    }
                }
            }
        }
        k
    });
}

pub fn is_listed_finding(class: &str) -> bool {
    match (KNOWN.get(), CURRENT_PROP.get()) {
        (Some(k), Some(p)) => k.findings.contains(&(p.clone(), class.to_string())),
        _ => false,
    }
}

// ------------------------------------------------------------------ replay files

pub fn replay_json(prop: Prop, scn: &AnyScn, v: &Violation, seed: u64, run: u64, tier: Tier, trace: Value, minimised: bool) -> Value {
    let mut j = scn.to_json();
    let m = j.as_object_mut().unwrap();
    m.insert("property".into(), json!(prop.name()));
    m.insert("violation".into(), json!({"class": v.class, "message": v.msg, "op_index": v.op_index}));
    m.insert("found_by".into(), json!({"VERIF_SEED": seed, "run": run, "tier": if tier == Tier::Quick {"quick"} else {"thorough"}, "profile": profile_name(), "minimised": minimised}));
    m.insert("draw_trace".into(), trace);
    j
}

pub fn write_replay(prop: Prop, seed: u64, run: u64, j: &Value) -> PathBuf {
    let dir = verif_dir().join("replays");
    let _ = std::fs::create_dir_all(&dir);
    let tag = if cfg!(debug_assertions) { "-relcheck" } else { "" };
    let path = dir.join(format!("{}-{}-{}{}.json", prop.name(), seed, run, tag));
    let _ = std::fs::write(&path, serde_json::to_string_pretty(j).unwrap());
    path
}

/// Execute the scenario with tracing on; returns (violations, draw trace as JSON).
pub fn exec_traced(prop: Prop, scn: &AnyScn) -> (crate::stats::RunResult, Value) {
    let (r, items) = crate::util::with_big_stack(|| {
        crate::entropy::trace_enable(true);
        let r = scn.exec(prop);
        let items = crate::entropy::trace_take();
        crate::entropy::trace_enable(false);
        (r, items)
    });
    let mut out = vec![];
    let mut cur_op: i64 = -1;
    for it in items {
        match it {
            crate::entropy::TraceItem::Mark(k) => cur_op = k as i64,
            crate::entropy::TraceItem::Session(d) => {
                out.push(json!({"op": cur_op, "draws": d.iter().map(|x| json!([x.hint, x.pick])).collect::<Vec<_>>()}));
            }
        }
    }
    (r, Value::Array(out))
}

/// The watchdog found a run that neither finished nor consumed entropy.
pub fn report_hang(prop: Prop, tier: Tier, seed: u64, idx: u64) {
    let scn = generate(prop, seed, idx, tier);
    let v = Violation { class: "hang".into(), msg: format!("run did not finish within {} s of wall time", crate::runner::watchdog_secs()), op_index: 0 };
    let j = replay_json(prop, &scn, &v, seed, idx, tier, json!([]), false);
    let path = write_replay(prop, seed, idx, &j);
    println!("VIOLATION property={} replay={} class=hang run={} :: the run neither finished nor consumed entropy for {} s", prop.name(), path.display(), idx, crate::runner::watchdog_secs());
    eprintln!("HANG run={}", idx);
    // 71: tells the supervisor to resume the batch without this run (so that evidence is still written)
    std::process::exit(71);
}

/// Re-execute a replay file in a fresh process; true when it reports the same class.
pub fn verify_in_fresh_process(path: &Path, class: &str) -> Result<bool, String> {
    let exe = std::env::current_exe().map_err(|e| e.to_string())?;
    let out = std::process::Command::new(exe).arg("replay").arg(path).output().map_err(|e| e.to_string())?;
    let text = String::from_utf8_lossy(&out.stdout);
    Ok(out.status.code() == Some(1) && text.contains(&format!("class={}", class)))
}

// ------------------------------------------------------------------ evidence

fn expected_probes(prop: Prop) -> Vec<&'static str> {
    let mut v = vec![];
    match prop {
        Prop::C11 => v.extend(["multiple_producers", "zero_bin_axis", "obs_on_interior_edge"]),
        _ => v.extend(["range_2_reached", "view_stepped_or_reversed", "view_has_guard_cells", "worst_case_chain_draws_ge_n_minus_1", "first_pivot_is_duplicated_value", "first_pivot_first_element", "first_pivot_last_element"]),
    }
    match prop {
        Prop::C01 => v.extend(["q_within_rounding_of_boundary", "q_fraction_exactly_half"]),
        Prop::C02 | Prop::C18 => v.extend(["request_list_has_repeats"]),
        Prop::C14 => v.extend(["all_missing_lane", "no_missing_lane", "only_first_missing", "only_last_missing", "extremum_of_nothing"]),
        Prop::C03 => v.extend(["all_missing_lane", "no_missing_lane"]),
        Prop::C16 => v.extend(["partition_single_element", "zero_bin_bins"]),
        Prop::C19 => v.extend(["q_zero", "q_one", "integral_index_all_strategies_coincide", "relabel_applied"]),
        _ => {}
    }
    v
}

fn expected_faults(prop: Prop) -> Vec<&'static str> {
    match prop {
        Prop::C16 => vec!["oor_single", "oor_bulk", "oor_bulk_mixed", "oor_partition", "oor_bins", "oor_grid"],
        Prop::C11 => vec!["obs_outside", "obs_on_last_edge", "obs_zero_bin_axis"],
        Prop::C14 | Prop::C03 => vec!["missing_values"],
        _ => vec![],
    }
}

fn rule_text(prop: Prop) -> &'static str {
    match prop {
        Prop::C11 => "Each evaluation is one simulated run: a seeded grid (1-3 axes, 0-6 edges per axis), 1-4 producers with observation streams, a delivery schedule (round-robin / random / bursty / one-producer-first) and a per-insert argument form; the cell-count model is checked after every delivery and order-independence / matrix form at the end. distinct_nontrivial counts distinct hashes of (sorted edge sets, delivered coordinate sequence) among runs with at least one accepted and one rejected insert.",
        _ => "Each evaluation is one simulated run: a seeded world (parent buffer, offset/stepped/reversed/permuted view, element type, value family), a history of 1-6 public-API calls that each see the permutation left by the previous one, and a seeded entropy policy per call that decides every pivot through the ThreadRng seam. distinct_nontrivial counts distinct hashes of (rank pattern of the lanes before the call, operation and arguments, served (range, pivot) sequence) over library calls on lanes of length >= 2 that consumed at least one draw.",
    }
}

pub fn evidence_json(prop: Prop, tier: Tier, seed: u64, out: &BatchOutcome, samples: Vec<Value>, violations: usize, known_lines: &[String]) -> Value {
    let st = &out.stats.stats;
    let mut probes = serde_json::Map::new();
    let mut unreached = vec![];
    for p in expected_probes(prop) {
        let n = st.probes.get(p).copied().unwrap_or(0);
        probes.insert(p.to_string(), json!(n));
        if n == 0 {
            unreached.push(p.to_string());
        }
    }
    for (k, v) in &st.probes {
        probes.entry(k.to_string()).or_insert(json!(v));
    }
    let mut faults = serde_json::Map::new();
    for f in expected_faults(prop) {
        faults.insert(f.to_string(), json!(st.faults.get(f).copied().unwrap_or(0)));
    }
    for (k, v) in &st.faults {
        faults.entry(k.to_string()).or_insert(json!(v));
    }
    let wall = out.wall_s.max(1e-9);
    json!({
        "property_id": prop.name(),
        "tier": if tier == Tier::Quick { "quick" } else { "thorough" },
        "seed": seed,
        "level": "exploration",
        "coverage": {
            "evaluations": out.stats.runs,
            "distinct_nontrivial": out.stats.distinct.len(),
            "distinct_nontrivial_is_lower_bound": out.stats.distinct_capped,
            "rule": rule_text(prop),
            "samples": samples,
            "exhaustive": false,
            "runs_requested": out.runs_requested,
            "stopped_early": out.stopped_early,
            "runs_per_hour": (out.stats.runs as f64 / wall * 3600.0) as u64,
            "operations": st.ops,
            "library_calls_under_a_policy": st.calls,
            "entropy_draws_served": st.draws,
            "max_draws_in_one_call": st.max_draws_in_op,
            "policies_used": out.stats.policy_json(),
            "fault_kinds_fired": Value::Object(faults),
            "reach_probes": Value::Object(probes),
            "unreached_probes": unreached,
            "operation_mix": st.op_hist,
            "element_types": st.elem_hist,
            "small_space_cases_n_le_4": out.stats.small.len(),
            "determinism": {
                "runs_re_executed_and_digest_compared": out.determinism_rechecks,
                "mismatches": if out.determinism_mismatch.is_some() { 1 } else { 0 },
                "batch_digest_xor": format!("{:016x}", out.stats.digest_xor),
                "batch_digest_sum": format!("{:016x}", out.stats.digest_sum),
            },
            "simulated_time": "none: the system under test has no clock, timer or I/O; logical time is the operation / entropy-draw sequence number",
            "build_profile": profile_name(),
            "components": {
                "real": ["ndarray-stats (built from /repo's working tree, unmodified, no hooks)", "ndarray", "noisy_float", "indexmap", "itertools", "num-traits", "num-integer", "rand (all code except ThreadRng's entropy)"],
                "stubbed": ["ThreadRng entropy: bits served by the simulator's policy through the rand::sim seam in /verif/vendor/rand-sim"]
            },
            "known_findings_hit": st.known.iter().map(|(k, (n, m))| json!({"class": k, "count": n, "example": m})).collect::<Vec<_>>(),
            "known_findings_file_lines": known_lines,
        },
        "assumptions": [
            "a clean batch is evidence, not proof: schedules, worlds and histories are sampled by seeded search",
            "the entropy seam serves only bit patterns a real generator could return; pivots are computed by the library itself",
            "reference models: slice::sort, linear scans and exact integer arithmetic on the bits of q (no code shared with the library)",
            "ndarray, noisy_float, indexmap and the Rust standard library are trusted"
        ],
        "wall_s": out.wall_s,
        "violations": violations,
    })
}

pub fn known_lines_for(prop: &str) -> Vec<String> {
    KNOWN
        .get()
        .map(|k| k.lines.iter().filter(|l| l.contains(&format!("property={}", prop))).cloned().collect())
        .unwrap_or_default()
}
