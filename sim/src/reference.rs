//! Small executable reference models. They share no code with the library:
//! linear scans, `slice::sort`, exact integer arithmetic on the bits of `q`.

use crate::elem::NumVal;
use crate::scenario::Strat;
use crate::util::ulp;
use std::cmp::Ordering;

/// (lower index, higher index, fraction compared with 1/2, fraction as f64)
#[derive(Clone, Copy, Debug, PartialEq)]
pub struct IndexPair {
    pub lo: usize,
    pub hi: usize,
    pub half: Ordering,
    pub frac: f64,
    pub integral: bool,
}

/// Exact index pair: (n-1)*q computed on the integer mantissa of q.
pub fn index_pair_exact(q: f64, n: usize) -> IndexPair {
    assert!(n >= 1 && (0.0..=1.0).contains(&q));
    let m = (n - 1) as u128;
    if q == 0.0 || m == 0 {
        return IndexPair { lo: 0, hi: 0, half: Ordering::Less, frac: 0.0, integral: true };
    }
    // q = mant * 2^exp with mant an integer < 2^53
    let bits = q.to_bits();
    let e = ((bits >> 52) & 0x7ff) as i32;
    let f = bits & ((1u64 << 52) - 1);
    let (mant, exp) = if e == 0 { (f, -1074) } else { (f | (1u64 << 52), e - 1075) };
    // product = m * mant * 2^exp, exp <= 0 because q <= 1 (mant >= 2^52 when normal)
    let prod = m * mant as u128; // < 2^64 * 2^53
    if exp >= 0 {
        // only q == 1.0 with exp... cannot happen for q<=1 except mant*2^exp integral
        let v = (prod << exp as u32) as usize;
        return IndexPair { lo: v, hi: v, half: Ordering::Less, frac: 0.0, integral: true };
    }
    let sh = (-exp) as u32;
    if sh >= 128 {
        // product < 1 and tiny
        return IndexPair { lo: 0, hi: 1, half: Ordering::Less, frac: (m as f64) * q, integral: false };
    }
    let lo = (prod >> sh) as usize;
    let rem = prod & ((1u128 << sh) - 1);
    if rem == 0 {
        return IndexPair { lo, hi: lo, half: Ordering::Less, frac: 0.0, integral: true };
    }
    let half_point = 1u128 << (sh - 1);
    let half = rem.cmp(&half_point);
    // fraction as f64 (correctly rounded enough: rem < 2^sh)
    let frac = if sh <= 64 {
        rem as f64 / (1u128 << sh) as f64
    } else {
        // keep the top 64 bits
        let drop = sh - 64;
        (rem >> drop) as f64 / (1u128 << 64) as f64
    };
    IndexPair { lo, hi: lo + 1, half, frac, integral: false }
}

/// Index pair as the documented f64 formula computes it: q * (n-1) rounded.
pub fn index_pair_rounded(q: f64, n: usize) -> IndexPair {
    let p = q * ((n - 1) as f64);
    let lo = p.floor() as usize;
    let hi = p.ceil() as usize;
    let frac = p - p.floor();
    let half = frac.partial_cmp(&0.5).unwrap();
    IndexPair { lo, hi, half, frac, integral: lo == hi }
}

pub fn index_pairs(q: f64, n: usize) -> Vec<IndexPair> {
    let a = index_pair_exact(q, n);
    let b = index_pair_rounded(q, n);
    let mut v = vec![a];
    if b.hi < n && (b.lo != a.lo || b.hi != a.hi || b.half != a.half || b.frac != a.frac) {
        v.push(b);
    }
    v
}

/// Is `higher - lower` representable in the element type? (integer range given
/// for integer types; for floats: finite)
pub fn spread_representable(lo: NumVal, hi: NumVal, int_max: i128) -> bool {
    match (lo, hi) {
        (NumVal::I(a), NumVal::I(b)) => b - a <= int_max,
        _ => (hi.as_f64() - lo.as_f64()).is_finite(),
    }
}

/// Check one quantile result against the statement of C01.
/// `sorted` is the fully sorted lane (numeric values), `got` the result.
pub fn check_quantile(sorted: &[NumVal], q: f64, strat: Strat, got: NumVal) -> Result<(), String> {
    let n = sorted.len();
    let cands = index_pairs(q, n);
    let mut why = String::new();
    for c in &cands {
        let lo = sorted[c.lo];
        let hi = sorted[c.hi];
        let ok = match strat {
            Strat::Lower => got.num_eq(lo),
            Strat::Higher => got.num_eq(hi),
            Strat::Nearest => match c.half {
                _ if c.integral => got.num_eq(lo),
                Ordering::Less => got.num_eq(lo),
                Ordering::Greater => got.num_eq(hi),
                Ordering::Equal => got.num_eq(lo) || got.num_eq(hi),
            },
            Strat::Midpoint | Strat::Linear => {
                let f = if strat == Strat::Midpoint { 0.5 } else { c.frac };
                match (lo, hi, got) {
                    (NumVal::I(a), NumVal::I(b), NumVal::I(g)) => {
                        let inside = a <= g && g <= b;
                        let within = if strat == Strat::Midpoint {
                            // exact value (a+b)/2; |g - exact| <= 1  <=>  |2g - (a+b)| <= 2
                            (2 * g - (a + b)).abs() <= 2
                        } else {
                            let exact = a as f64 + (b - a) as f64 * f;
                            (g as f64 - exact).abs() <= 1.0 + 1e-9 * ((b - a) as f64).abs()
                        };
                        inside && within
                    }
                    (NumVal::F(a), NumVal::F(b), NumVal::F(g)) => {
                        let exact = a * (1.0 - f) + b * f;
                        let scale = a.abs().max(b.abs());
                        let tol = 4.0 * ulp(scale) + (b - a).abs() * 2f64.powi(-40);
                        let tol = if tol.is_finite() { tol } else { f64::MAX };
                        let inside = g >= a - ulp(a) && g <= b + ulp(b);
                        g.is_finite() == exact.is_finite() && (g - exact).abs() <= tol && inside
                    }
                    _ => false,
                }
            }
        };
        if ok {
            return Ok(());
        }
        why.push_str(&format!(
            "[candidate lower@{}={:?} higher@{}={:?} frac={:?}] ",
            c.lo, lo, c.hi, hi, c.frac
        ));
    }
    Err(format!("q={:?} n={} {} got {:?}, not what the sorted lane gives: {}", q, n, strat.name(), got, why))
}

/// true when every candidate index pair of (q, n) is integral (all five strategies must coincide)
pub fn integral_everywhere(q: f64, n: usize) -> bool {
    index_pairs(q, n).iter().all(|c| c.integral)
}

#[cfg(test)]
mod tests {
    use super::*;
    #[test]
    fn exact_pairs() {
        let p = index_pair_exact(0.5, 3);
        assert_eq!((p.lo, p.hi, p.integral), (1, 1, true));
        let p = index_pair_exact(0.5, 4);
        assert_eq!((p.lo, p.hi, p.half), (1, 2, Ordering::Equal));
        let p = index_pair_exact(1.0, 7);
        assert_eq!((p.lo, p.hi, p.integral), (6, 6, true));
        let p = index_pair_exact(0.1, 11); // 0.1 is slightly above 1/10
        assert_eq!((p.lo, p.hi), (1, 2));
        assert!(p.frac < 1e-15);
        let p = index_pair_exact(f64::from_bits(1), 5);
        assert_eq!((p.lo, p.hi), (0, 1));
        let p = index_pair_exact(0.25, 2);
        assert_eq!((p.lo, p.hi, p.half), (0, 1, Ordering::Less));
        assert_eq!(p.frac, 0.25);
    }
}
