//! C19: relations between quantile calls made on clones of the same world, each
//! under its own pivot schedule. No reference model is involved.

use crate::elem::{num_of_raw, Elem, NumVal, OrdElem};
use crate::entropy::{with_policy, Outcome, Policy};
use crate::exec::{budget, call_quantile, lane_cells, note_case, restore};
use crate::reference::integral_everywhere;
use crate::scenario::{Op, Scenario, Strat, ALL_STRATS};
use crate::stats::Ctx;
use crate::util::{mix, ulp, Rng};
use crate::world::World;

fn derive(p: &Policy, k: u64) -> Policy {
    let mut q = p.clone();
    q.seed = mix(p.seed, k.wrapping_add(1));
    q
}

/// quantile of the lane on a fresh clone of the world whose parent buffer is `snap`
fn q_on<T: OrdElem>(cx: &mut Ctx, scn: &Scenario, snap: &[i64], lane: Option<(usize, usize)>, n: usize, q: f64, strat: Strat, pol: &Policy) -> Result<T, String> {
    let mut w2 = World::<T>::build(scn);
    restore(&mut w2, snap);
    let (o, s) = with_policy(pol, budget(n), || call_quantile(w2.view_mut(), scn.static_dim, "quantile1", lane, 0, &[q], strat, 0));
    cx.note_draws(pol.kind, &s.draws);
    match o {
        Outcome::Done(Ok(r)) => {
            let x = r.iter().next().unwrap().clone();
            cx.dg.evi(x.to_raw());
            Ok(x)
        }
        Outcome::Done(Err(e)) => Err(format!("returned Err({})", e)),
        Outcome::Panicked(m) => Err(format!("panicked: {}", m)),
        Outcome::NoProgress => Err("did not complete".into()),
    }
}

/// a <= b, where float interpolating strategies get a 2-ulp allowance
fn le_tol(a: NumVal, b: NumVal, tol_ulps: f64) -> bool {
    match (a, b) {
        (NumVal::I(x), NumVal::I(y)) => x <= y,
        _ => {
            let (x, y) = (a.as_f64(), b.as_f64());
            x <= y + tol_ulps * ulp(x.abs().max(y.abs()))
        }
    }
}

pub fn op_law<T: OrdElem>(cx: &mut Ctx, scn: &Scenario, w: &mut World<T>, op: &Op) {
    let cells = match lane_cells(w, op.lane) {
        Some(c) => c,
        None => return,
    };
    let n = cells.len();
    if n == 0 || op.qs.is_empty() || op.qs.iter().any(|q| !(0.0..=1.0).contains(q)) {
        return;
    }
    let ty = scn.elem;
    let before = w.snapshot();
    let pre: Vec<i64> = cells.iter().map(|&c| before[c]).collect();
    let vals: Vec<T> = pre.iter().map(|&r| T::from_raw(r)).collect();
    let vmin = vals.iter().min().unwrap().clone();
    let vmax = vals.iter().max().unwrap().clone();
    let float_interp = |s: Strat| ty.is_float() && !s.selecting();
    let linear_ok = crate::exec::linear_domain_ok(ty, &pre);
    if op.strat == Strat::Linear && !linear_ok && op.name != "law_sandwich" {
        return;
    }

    // the first call of every law runs on the real world (so the history goes on)
    let first = {
        let lane = op.lane;
        let (q, strat) = (op.qs[0], if op.name == "law_sandwich" { Strat::Lower } else { op.strat });
        let (o, s) = with_policy(&op.policy, budget(n), || call_quantile(w.view_mut(), scn.static_dim, "quantile1", lane, 0, &[q], strat, 0));
        note_case(cx, ty, &op.name, &pre, &[q.to_bits(), strat as u64], &op.policy, &s);
        match o {
            Outcome::Done(Ok(r)) => r.iter().next().unwrap().clone(),
            other => {
                let why = match other {
                    Outcome::Panicked(m) => format!("panicked: {}", m),
                    Outcome::NoProgress => "did not complete".to_string(),
                    _ => "returned an error".to_string(),
                };
                cx.fail("law-call-failed", format!("{}: quantile_mut(q={:?}, {}) on a lane of length {} {}", op.name, q, strat.name(), n, why));
                return;
            }
        }
    };
    cx.dg.evi(first.to_raw());

    macro_rules! try_q {
        ($snap:expr, $q:expr, $s:expr, $k:expr) => {
            match q_on::<T>(cx, scn, $snap, op.lane, n, $q, $s, &derive(&op.alt, $k as u64)) {
                Ok(x) => x,
                Err(e) => {
                    cx.fail("law-call-failed", format!("{}: quantile_mut(q={:?}, {}) on a lane of length {} {}", op.name, $q, $s.name(), n, e));
                    return;
                }
            }
        };
    }

    match op.name.as_str() {
        "law_monotone" => {
            let s = op.strat;
            let tol = if float_interp(s) { 2.0 } else { 0.0 };
            let mut prev: Option<(f64, T)> = None;
            for (j, &q) in op.qs.iter().enumerate() {
                let r = if j == 0 { first.clone() } else { try_q!(&before, q, s, j) };
                if !(le_tol(vmin.num(), r.num(), tol) && le_tol(r.num(), vmax.num(), tol)) {
                    cx.fail("law-bounds", format!("{} quantile at q={:?} is {:?}, outside [min {:?}, max {:?}] of lane {:?}", s.name(), q, r, vmin, vmax, vals));
                    return;
                }
                if q == 0.0 {
                    cx.stats.probe("q_zero");
                    if !r.num().num_eq(vmin.num()) {
                        cx.fail("law-q0-min", format!("{} quantile at q=0 is {:?}, lane minimum is {:?} (lane {:?})", s.name(), r, vmin, vals));
                        return;
                    }
                }
                if q == 1.0 {
                    cx.stats.probe("q_one");
                    if !r.num().num_eq(vmax.num()) {
                        cx.fail("law-q1-max", format!("{} quantile at q=1 is {:?}, lane maximum is {:?} (lane {:?})", s.name(), r, vmax, vals));
                        return;
                    }
                }
                if let Some((pq, pr)) = &prev {
                    if *pq <= q && !le_tol(pr.num(), r.num(), tol) {
                        cx.fail("law-monotone", format!("{}: quantile({:?}) = {:?} > quantile({:?}) = {:?} on lane {:?}", s.name(), pq, pr, q, r, vals));
                        return;
                    }
                }
                prev = Some((q, r));
            }
            // ... and through the per-axis bulk entry point over all sibling lanes at once
            if let Some((ax, _)) = op.lane {
                if op.form >= 2 && ax < w.idx.ndim() {
                    let mut w3 = World::<T>::build(scn);
                    restore(&mut w3, &before);
                    let pol = derive(&op.alt, 2000);
                    let lanes = w3.lanes(ax);
                    let total: usize = lanes.iter().map(|l| l.len()).sum();
                    let (o, sx) = with_policy(&pol, budget(total) + 64 * lanes.len() * (op.qs.len() + 1), || call_quantile(w3.view_mut(), scn.static_dim, "quantiles_axis", None, ax, &op.qs, s, op.form));
                    cx.note_draws(pol.kind, &sx.draws);
                    if let Outcome::Done(Ok(rb)) = o {
                        if rb.shape().get(ax).copied() == Some(op.qs.len()) {
                            for (li, rl) in rb.lanes(ndarray::Axis(ax)).into_iter().enumerate() {
                                let lv: Vec<T> = lanes[li].iter().map(|&c| T::from_raw(before[c])).collect();
                                let (lmin, lmax) = (lv.iter().min().unwrap().clone(), lv.iter().max().unwrap().clone());
                                for j in 0..rl.len() {
                                    let (q, r) = (op.qs[j], &rl[j]);
                                    let bad_bounds = !(le_tol(lmin.num(), r.num(), tol) && le_tol(r.num(), lmax.num(), tol));
                                    let bad_ends = (q == 0.0 && !r.num().num_eq(lmin.num())) || (q == 1.0 && !r.num().num_eq(lmax.num()));
                                    let bad_mono = j > 0 && op.qs[j - 1] <= q && !le_tol(rl[j - 1].num(), r.num(), tol);
                                    if bad_bounds || bad_ends || bad_mono {
                                        cx.fail(
                                            if bad_mono { "law-monotone" } else if bad_ends { "law-q0-min" } else { "law-bounds" },
                                            format!("{} per-axis bulk call (axis {}, {} lanes, list form {}): lane {} gives {:?} for qs {:?}; lane min {:?} max {:?}", s.name(), ax, lanes.len(), op.form, li, rl.to_vec(), op.qs, lmin, lmax),
                                        );
                                        return;
                                    }
                                }
                            }
                        } else {
                            cx.fail("law-call-failed", format!("law_monotone: per-axis bulk call returned shape {:?}", rb.shape()));
                            return;
                        }
                    } else {
                        cx.fail("law-call-failed", format!("law_monotone: per-axis bulk quantiles_axis_mut({:?}, {}) failed", op.qs, s.name()));
                        return;
                    }
                }
            }
            // the same laws through the bulk entry point, with the q list passed in the op's form
            if op.form != 0 {
                let mut w2 = World::<T>::build(scn);
                restore(&mut w2, &before);
                let pol = derive(&op.alt, 1000);
                let (o, sx) = with_policy(&pol, budget(n) + 64 * op.qs.len(), || call_quantile(w2.view_mut(), scn.static_dim, "quantiles1", op.lane, 0, &op.qs, s, op.form));
                cx.note_draws(pol.kind, &sx.draws);
                match o {
                    Outcome::Done(Ok(rb)) => {
                        let rb: Vec<T> = rb.iter().cloned().collect();
                        if rb.len() != op.qs.len() {
                            cx.fail("law-monotone", format!("{}: bulk call with {} q values returned {} results", s.name(), op.qs.len(), rb.len()));
                            return;
                        }
                        for j in 0..rb.len() {
                            let (q, r) = (op.qs[j], &rb[j]);
                            if !(le_tol(vmin.num(), r.num(), tol) && le_tol(r.num(), vmax.num(), tol)) {
                                cx.fail("law-bounds", format!("{} bulk quantile at q={:?} is {:?}, outside [min {:?}, max {:?}]", s.name(), q, r, vmin, vmax));
                                return;
                            }
                            if (q == 0.0 && !r.num().num_eq(vmin.num())) || (q == 1.0 && !r.num().num_eq(vmax.num())) {
                                cx.fail(if q == 0.0 { "law-q0-min" } else { "law-q1-max" }, format!("{} bulk quantile at q={:?} is {:?}; lane min {:?}, max {:?} (qs {:?} passed in list form {})", s.name(), q, r, vmin, vmax, op.qs, op.form));
                                return;
                            }
                            if j > 0 && op.qs[j - 1] <= q && !le_tol(rb[j - 1].num(), r.num(), tol) {
                                cx.fail("law-monotone", format!("{} (bulk call, list form {}): quantile({:?}) = {:?} > quantile({:?}) = {:?} on lane {:?}", s.name(), op.form, op.qs[j - 1], rb[j - 1], q, r, vals));
                                return;
                            }
                        }
                    }
                    _ => {
                        cx.fail("law-call-failed", format!("law_monotone: bulk quantiles_mut({:?}, {}) on a lane of length {} failed", op.qs, s.name(), n));
                        return;
                    }
                }
            }
        }
        "law_sandwich" => {
            let q = op.qs[0];
            let lower = first.clone();
            let higher = try_q!(&before, q, Strat::Higher, 1);
            let integral = integral_everywhere(q, n);
            if integral {
                cx.stats.probe("integral_index_all_strategies_coincide");
            }
            if !le_tol(lower.num(), higher.num(), 0.0) {
                cx.fail("law-sandwich", format!("q={:?}: Lower = {:?} > Higher = {:?} on lane {:?}", q, lower, higher, vals));
                return;
            }
            for (k, s) in ALL_STRATS.iter().enumerate() {
                if matches!(s, Strat::Lower | Strat::Higher) || (*s == Strat::Linear && !linear_ok) {
                    continue;
                }
                let r = try_q!(&before, q, *s, 2 + k);
                let tol = if float_interp(*s) { 2.0 } else { 0.0 };
                if !(le_tol(lower.num(), r.num(), tol) && le_tol(r.num(), higher.num(), tol)) {
                    cx.fail("law-sandwich", format!("q={:?}: {} = {:?} is not between Lower = {:?} and Higher = {:?} on lane {:?}", q, s.name(), r, lower, higher, vals));
                    return;
                }
                if integral && !(r.num().num_eq(lower.num()) && r.num().num_eq(higher.num())) {
                    cx.fail("law-coincide", format!("(N-1)q integral (q={:?}, N={}): {} = {:?} but Lower = {:?}, Higher = {:?}", q, n, s.name(), r, lower, higher));
                    return;
                }
            }
        }
        "law_permute" => {
            let q = op.qs[0];
            let mut rng = Rng::new(op.alt.seed ^ 0x7065_726d);
            let mut perm: Vec<usize> = (0..n).collect();
            rng.shuffle(&mut perm);
            let mut snap = before.clone();
            for (j, &c) in cells.iter().enumerate() {
                snap[c] = pre[perm[j]];
            }
            let r = try_q!(&snap, q, op.strat, 1);
            if !r.num().num_eq(first.num()) {
                let pv: Vec<T> = perm.iter().map(|&p| vals[p].clone()).collect();
                cx.fail("law-permutation", format!("{} q={:?}: {:?} on lane {:?} but {:?} on its permutation {:?}", op.strat.name(), q, first, vals, r, pv));
            }
        }
        "law_relabel" => {
            let q = op.qs[0];
            if !op.strat.selecting() {
                return;
            }
            let kind = op.aux.first().and_then(|a| a.first()).copied().unwrap_or(2);
            let a = op.aux.first().and_then(|x| x.get(1)).copied().unwrap_or(1).max(1) as i128;
            let b = op.aux.first().and_then(|x| x.get(2)).copied().unwrap_or(0) as i128;
            // rank map needs the sorted distinct values
            let mut distinct: Vec<T> = vals.clone();
            distinct.sort();
            distinct.dedup();
            let (lo_lim, hi_lim) = ty.int_range();
            let f = |x: &T| -> Option<i64> {
                match x.num() {
                    NumVal::I(v) => {
                        let y = match kind {
                            0 => v.checked_mul(a)?.checked_add(b)?,
                            1 => v.checked_mul(v)?.checked_mul(v)?,
                            _ => distinct.binary_search(x).ok()? as i128,
                        };
                        if y < lo_lim || y > hi_lim {
                            None
                        } else {
                            Some(ty.raw_of_int(y))
                        }
                    }
                    NumVal::F(v) => {
                        let y = match kind {
                            0 => v * a as f64 + b as f64,
                            1 => v * v * v,
                            _ => distinct.binary_search(x).ok()? as f64,
                        };
                        if !y.is_finite() {
                            None
                        } else {
                            Some(ty.raw_of_f64(y))
                        }
                    }
                }
            };
            let mapped: Option<Vec<i64>> = vals.iter().map(|x| f(x)).collect();
            let mapped = match mapped {
                Some(m) => m,
                None => return,
            };
            // the relabelling must be strictly increasing on the lane's values (after rounding)
            let mut pairs: Vec<(T, T)> = vals.iter().cloned().zip(mapped.iter().map(|&r| T::from_raw(r))).collect();
            pairs.sort();
            for w2 in pairs.windows(2) {
                let (x0, y0) = (&w2[0].0, &w2[0].1);
                let (x1, y1) = (&w2[1].0, &w2[1].1);
                let ok = if x0 == x1 { y0 == y1 } else { y0 < y1 };
                if !ok {
                    return;
                }
            }
            cx.stats.probe("relabel_applied");
            let mut snap = before.clone();
            for (j, &c) in cells.iter().enumerate() {
                snap[c] = mapped[j];
            }
            let r = try_q!(&snap, q, op.strat, 1);
            let want = match f(&first) {
                Some(x) => x,
                None => return,
            };
            if !r.num().num_eq(num_of_raw(ty, want)) {
                cx.fail(
                    "law-relabel",
                    format!("{} q={:?}: quantile of relabelled lane is {:?}, relabelled quantile is {:?} (lane {:?}, quantile {:?}, relabelling kind {})", op.strat.name(), q, r, T::from_raw(want), vals, first, kind),
                );
            }
        }
        _ => {}
    }
}
