//! C16: out-of-range bin requests on `Bins` and `Grid`.

use crate::entropy::{with_policy, Outcome};
use crate::scenario::Op;
use crate::stats::Ctx;
use ndarray_stats::histogram::{Bins, Edges, Grid};

fn n_bins(edges: &[i64]) -> usize {
    let mut e = edges.to_vec();
    e.sort_unstable();
    e.dedup();
    e.len().saturating_sub(1)
}

pub fn op_bins_grid(cx: &mut Ctx, op: &Op) {
    match op.name.as_str() {
        "bins_index" => {
            let edges = op.aux.first().cloned().unwrap_or_default();
            let i = op.idx.first().copied().unwrap_or(0);
            let nb = n_bins(&edges);
            let in_range = (i as u128) < nb as u128;
            let (out, s) = with_policy(&op.policy, 64, || {
                let bins = Bins::new(crate::hist::edges_of::<i64>(&edges, op.form));
                let r = bins.index(i as usize);
                (r.start, r.end, bins.len())
            });
            cx.note_draws(op.policy.kind, &s.draws);
            if nb == 0 {
                cx.stats.probe("zero_bin_bins");
            }
            if in_range {
                match out {
                    Outcome::Done((a, b, len)) => {
                        cx.dg.evi(a);
                        cx.dg.evi(b);
                        if len != nb {
                            // reported for completeness of the trace only; C13 is not claimed here
                            cx.dg.ev(len as u64);
                        }
                    }
                    Outcome::Panicked(m) => cx.fail("inrange-panic:bins_index", format!("Bins::index({}) with {} bins (edges {:?}) panicked: {}", i, nb, edges, m)),
                    Outcome::NoProgress => {}
                }
            } else {
                cx.stats.fault("oor_bins");
                if let Outcome::Done((a, b, _)) = out {
                    cx.fail("oor-accepted:bins_index", format!("Bins::index({}) with {} bins (edges {:?}) returned {}..{} instead of panicking", i, nb, edges, a, b));
                }
            }
        }
        "grid_index" => {
            let axes = op.aux.clone();
            if op.idx.len() != axes.len() {
                return; // arity mismatch is a different documented panic, not in this property
            }
            let lens: Vec<usize> = axes.iter().map(|e| n_bins(e)).collect();
            let in_range = op.idx.iter().zip(&lens).all(|(&i, &l)| (i as u128) < l as u128);
            let idx: Vec<usize> = op.idx.iter().map(|&i| i as usize).collect();
            let (out, s) = with_policy(&op.policy, 64, || {
                let grid = Grid::from(axes.iter().enumerate().map(|(j, e)| Bins::new(crate::hist::edges_of::<i64>(e, if j == 0 { op.form } else { 0 }))).collect::<Vec<_>>());
                grid.index(&idx).len()
            });
            cx.note_draws(op.policy.kind, &s.draws);
            if in_range {
                if let Outcome::Panicked(m) = out {
                    cx.fail("inrange-panic:grid_index", format!("Grid::index({:?}) with shape {:?} panicked: {}", idx, lens, m));
                }
            } else {
                cx.stats.fault("oor_grid");
                if let Outcome::Done(_) = out {
                    cx.fail("oor-accepted:grid_index", format!("Grid::index({:?}) with shape {:?} returned instead of panicking", idx, lens));
                }
            }
        }
        _ => {}
    }
}
