//! C11: one real `Histogram`, several simulated producers, a delivery schedule
//! that decides whose next observation is inserted, and a cell-count reference
//! model checked after every delivery.

use crate::entropy::{with_policy, Outcome, Policy};
use crate::stats::{Ctx, RunResult};
use crate::util::{fnv, mix};
use ndarray::{Array1, Array2, ShapeBuilder};
use ndarray_stats::histogram::{Bins, Edges, Grid, Histogram};
use ndarray_stats::HistogramExt;
use noisy_float::types::{n64, N64};
use serde_json::{json, Value};
use std::collections::BTreeMap;

#[derive(Clone, Debug, PartialEq)]
pub struct HistScenario {
    /// "i32", "N64" (values are v * 0.5) or "wide" ([v, -v, 7] as [i64; 3])
    pub elem: String,
    /// per axis: the edge collection as given (unsorted, duplicates allowed)
    pub edges: Vec<Vec<i64>>,
    /// producers[p] = that producer's stream of observations (each one coordinate per axis)
    pub producers: Vec<Vec<Vec<i64>>>,
    /// delivery schedule: which producer's next observation is inserted
    pub delivery: Vec<usize>,
    /// how each delivered observation is passed: 0 owned array, 1 view, 2 strided row of a column-major matrix
    pub forms: Vec<u8>,
    /// layout of the matrix for the matrix form: 0 row-major, 1 column-major,
    /// 2 view with the coordinate axis reversed, 3 view with the row axis reversed
    pub matrix_order: u8,
    /// per axis, how the edge collection is handed to `Edges::from`: 0 Vec, 1 owned Array1,
    /// 2 owned Array1 trimmed with slice_move, 3 owned reversed Array1, 4 owned stepped Array1
    pub edge_forms: Vec<u8>,
}

impl HistScenario {
    pub fn to_json(&self) -> Value {
        json!({
            "kind": "hist",
            "property": "C11",
            "elem": self.elem,
            "edges": self.edges,
            "producers": self.producers,
            "delivery": self.delivery,
            "forms": self.forms,
            "matrix_order": self.matrix_order,
            "edge_forms": self.edge_forms,
            "note": "N64 values are the listed integers times 0.5; +-2^40 stand for +-infinity",
        })
    }
    pub fn from_json(v: &Value) -> Result<HistScenario, String> {
        let vi = |x: &Value| -> Vec<i64> { x.as_array().map(|a| a.iter().map(|y| y.as_i64().unwrap_or(0)).collect()).unwrap_or_default() };
        Ok(HistScenario {
            elem: v["elem"].as_str().ok_or("elem")?.to_string(),
            edges: v["edges"].as_array().ok_or("edges")?.iter().map(vi).collect(),
            producers: v["producers"].as_array().ok_or("producers")?.iter().map(|p| p.as_array().map(|a| a.iter().map(vi).collect()).unwrap_or_default()).collect(),
            delivery: v["delivery"].as_array().ok_or("delivery")?.iter().map(|x| x.as_u64().unwrap_or(0) as usize).collect(),
            forms: v["forms"].as_array().map(|a| a.iter().map(|x| x.as_u64().unwrap_or(0) as u8).collect()).unwrap_or_default(),
            matrix_order: v["matrix_order"].as_u64().unwrap_or(0) as u8,
            edge_forms: v.get("edge_forms").and_then(|a| a.as_array()).map(|a| a.iter().map(|x| x.as_u64().unwrap_or(0) as u8).collect()).unwrap_or_default(),
        })
    }
    /// the observations in delivery order
    pub fn delivered(&self) -> Vec<Vec<i64>> {
        let mut next = vec![0usize; self.producers.len()];
        let mut out = vec![];
        for &p in &self.delivery {
            if p < self.producers.len() && next[p] < self.producers[p].len() {
                out.push(self.producers[p][next[p]].clone());
                next[p] += 1;
            }
        }
        out
    }
}

/// reference: per axis the sorted distinct edges; a cell by linear scan
struct Model {
    axes: Vec<Vec<i64>>,
    counts: BTreeMap<Vec<usize>, usize>,
    accepted: usize,
}

impl Model {
    fn new(edges: &[Vec<i64>]) -> Model {
        let axes = edges
            .iter()
            .map(|e| {
                let mut s = e.clone();
                s.sort_unstable();
                s.dedup();
                s
            })
            .collect();
        Model { axes, counts: BTreeMap::new(), accepted: 0 }
    }
    fn shape(&self) -> Vec<usize> {
        self.axes.iter().map(|a| a.len().saturating_sub(1)).collect()
    }
    fn cell(&self, obs: &[i64]) -> Option<Vec<usize>> {
        let mut c = vec![];
        for (v, e) in obs.iter().zip(&self.axes) {
            let mut found = None;
            for i in 0..e.len().saturating_sub(1) {
                if e[i] <= *v && *v < e[i + 1] {
                    found = Some(i);
                }
            }
            c.push(found?);
        }
        Some(c)
    }
    fn insert(&mut self, obs: &[i64]) -> bool {
        match self.cell(obs) {
            Some(c) => {
                *self.counts.entry(c).or_insert(0) += 1;
                self.accepted += 1;
                true
            }
            None => false,
        }
    }
    fn dense(&self) -> Vec<usize> {
        // row-major over shape()
        let shape = self.shape();
        let total: usize = shape.iter().product();
        let mut out = vec![0usize; total];
        for (c, &n) in &self.counts {
            let mut lin = 0usize;
            for (i, &s) in c.iter().zip(&shape) {
                lin = lin * s + i;
            }
            out[lin] = n;
        }
        out
    }
}

pub trait HistElem: Ord + Clone + 'static {
    fn conv(v: i64) -> Self;
}
impl HistElem for i32 {
    fn conv(v: i64) -> i32 {
        v as i32
    }
}
impl HistElem for N64 {
    fn conv(v: i64) -> N64 {
        // the two sentinels stand for the infinities (order-consistent with the integer model)
        if v == POS_INF {
            n64(f64::INFINITY)
        } else if v == NEG_INF {
            n64(f64::NEG_INFINITY)
        } else {
            n64(v as f64 * 0.5)
        }
    }
}

impl HistElem for i64 {
    fn conv(v: i64) -> i64 {
        v
    }
}

/// an element type wider than 16 bytes (ordered lexicographically; the first component decides)
impl HistElem for [i64; 3] {
    fn conv(v: i64) -> [i64; 3] {
        [v, -v, 7]
    }
}

/// scenario integers that mean +inf / -inf for N64 grids (never generated for i32)
pub const POS_INF: i64 = 1 << 40;
pub const NEG_INF: i64 = -(1 << 40);

pub fn edges_of<T: HistElem>(e: &[i64], form: u8) -> Edges<T> {
    let vals: Vec<T> = e.iter().map(|&v| T::conv(v)).collect();
    let junk = T::conv(3);
    match form {
        1 => Edges::from(Array1::from(vals)),
        2 => {
            // an owned array that does not start at the beginning of its allocation
            let mut v = vec![junk.clone(), junk.clone()];
            let n = vals.len();
            v.extend(vals);
            v.push(junk);
            Edges::from(Array1::from(v).slice_move(ndarray::s![2..2 + n]))
        }
        3 => {
            let mut v = vals;
            v.reverse();
            Edges::from(Array1::from(v).slice_move(ndarray::s![..;-1]))
        }
        4 => {
            let mut v = Vec::with_capacity(vals.len() * 2);
            for x in vals {
                v.push(x);
                v.push(junk.clone());
            }
            Edges::from(Array1::from(v).slice_move(ndarray::s![..;2]))
        }
        _ => Edges::from(vals),
    }
}

fn grid_of_forms<T: HistElem>(edges: &[Vec<i64>], forms: &[u8]) -> Grid<T> {
    let g = Grid::from(edges.iter().enumerate().map(|(j, e)| Bins::new(edges_of::<T>(e, forms.get(j).copied().unwrap_or(0)))).collect::<Vec<_>>());
    // form code 5..: the grid is produced by `clone_from` into an existing, larger grid (with more axes / more edges)
    match forms.iter().copied().max().unwrap_or(0) {
        5 => {
            let mut big: Vec<Vec<i64>> = edges.iter().map(|e| {
                let mut b = e.clone();
                b.extend([1000, 1001, 1002]);
                b
            }).collect();
            big.push(vec![0, 1, 2]);
            let mut dst = Grid::from(big.iter().map(|e| Bins::new(edges_of::<T>(e, 0))).collect::<Vec<_>>());
            dst.clone_from(&g);
            dst
        }
        6 => {
            // per-axis Bins::clone_from into Bins with more edges
            let parts: Vec<Bins<T>> = g.projections().iter().map(|b| {
                let mut dst = Bins::new(edges_of::<T>(&[-3000, -2000, -1000, 0, 1000, 2000, 3000, 4000], 0));
                dst.clone_from(b);
                dst
            }).collect();
            Grid::from(parts)
        }
        _ => g,
    }
}

fn grid_of<T: HistElem>(edges: &[Vec<i64>]) -> Grid<T> {
    grid_of_forms::<T>(edges, &[])
}

fn counts_of<T: HistElem>(h: &Histogram<T>) -> (Vec<usize>, Vec<usize>) {
    let c = h.counts();
    (c.shape().to_vec(), c.iter().copied().collect())
}

pub fn exec_hist(scn: &HistScenario) -> RunResult {
    match scn.elem.as_str() {
        "N64" => exec_hist_t::<N64>(scn),
        "wide" => exec_hist_t::<[i64; 3]>(scn),
        _ => exec_hist_t::<i32>(scn),
    }
}

fn insert_obs<T: HistElem>(h: &mut Histogram<T>, obs: &[i64], form: u8) -> Result<(), ()> {
    let vals: Vec<T> = obs.iter().map(|&v| T::conv(v)).collect();
    match form {
        1 => {
            let a = Array1::from(vals);
            h.add_observation(&a.view()).map_err(|_| ())
        }
        2 => {
            // a row of a column-major matrix: stride = number of rows (3)
            let d = vals.len();
            let mut m = Array2::from_elem((3, d).f(), vals[0].clone());
            for (j, v) in vals.iter().enumerate() {
                m[[1, j]] = v.clone();
            }
            h.add_observation(&m.row(1)).map_err(|_| ())
        }
        3 => h.add_observation(&Array1::from(vals).into_shared()).map_err(|_| ()),
        4 => {
            let mut r = vals;
            r.reverse();
            let a = Array1::from(r);
            h.add_observation(&a.slice(ndarray::s![..;-1])).map_err(|_| ())
        }
        _ => h.add_observation(&Array1::from(vals)).map_err(|_| ()),
    }
}

fn exec_hist_t<T: HistElem>(scn: &HistScenario) -> RunResult {
    let mut cx = Ctx::new();
    let d = scn.edges.len();
    *cx.stats.elem_hist.entry(match scn.elem.as_str() {
        "N64" => "N64",
        "wide" => "[i64; 3]",
        _ => "i32",
    })
    .or_insert(0) += 1;
    let pol = Policy::simple(crate::entropy::Kind::Low, 0);
    let mut model = Model::new(&scn.edges);
    let delivered = scn.delivered();
    if scn.producers.len() > 1 {
        cx.stats.probe("multiple_producers");
    }
    if model.shape().iter().any(|&s| s == 0) {
        cx.stats.probe("zero_bin_axis");
    }
    let (out, _s) = with_policy(&pol, 64, || {
        let mut viol: Option<(String, String)> = None;
        let mut h = Histogram::new(grid_of_forms::<T>(&scn.edges, &scn.edge_forms));
        let mut events: Vec<u64> = vec![];
        let mut faults: Vec<&'static str> = vec![];
        let (shape0, _) = counts_of(&h);
        if shape0 != model.shape() || h.grid().shape() != model.shape() {
            viol = Some(("hist-shape".into(), format!("new histogram has counts of shape {:?} and grid shape {:?}; the edges {:?} define {:?} bins per axis", shape0, h.grid().shape(), scn.edges, model.shape())));
        }
        for (k, obs) in delivered.iter().enumerate() {
            if viol.is_some() {
                break;
            }
            if obs.len() != d || d == 0 {
                continue;
            }
            let form = scn.forms.get(k).copied().unwrap_or(0);
            let (_, before) = counts_of(&h);
            let r = insert_obs(&mut h, obs, form);
            let want = model.insert(obs);
            events.push(r.is_ok() as u64);
            // classify the fault kind that fired
            if !want {
                let mut kind = "obs_outside";
                for (v, e) in obs.iter().zip(&model.axes) {
                    if e.len() < 2 {
                        kind = "obs_zero_bin_axis";
                        break;
                    }
                    if *v == *e.last().unwrap() {
                        kind = "obs_on_last_edge";
                    }
                }
                faults.push(kind);
            } else if obs.iter().zip(&model.axes).any(|(v, e)| e[1..e.len() - 1].contains(v)) {
                faults.push("probe:obs_on_interior_edge");
            }
            let (shape, after) = counts_of(&h);
            if r.is_ok() != want {
                viol = Some((
                    "hist-accept-mismatch".into(),
                    format!("delivery {}: add_observation({:?}) returned {}, but the observation {} a cell of the grid with edges {:?}", k, obs, if r.is_ok() { "Ok" } else { "BinNotFound" }, if want { "lies in" } else { "is outside every" }, model.axes),
                ));
                break;
            }
            if r.is_err() && after != before {
                viol = Some(("hist-reject-changed-counts".into(), format!("delivery {}: rejected observation {:?} changed the counts from {:?} to {:?}", k, obs, before, after)));
                break;
            }
            if shape != model.shape() {
                viol = Some(("hist-shape".into(), format!("delivery {}: counts have shape {:?}, the grid has {:?}", k, shape, model.shape())));
                break;
            }
            if after != model.dense() {
                viol = Some(("hist-counts".into(), format!("delivery {}: after inserting {:?} the counts are {:?} (shape {:?}); counting by linear scan over edges {:?} gives {:?}", k, obs, after, shape, model.axes, model.dense())));
                break;
            }
            if after.iter().sum::<usize>() != model.accepted {
                viol = Some(("hist-counts".into(), format!("delivery {}: counts sum to {}, {} observations were accepted", k, after.iter().sum::<usize>(), model.accepted)));
                break;
            }
        }
        let (_, fin) = counts_of(&h);
        if viol.is_none() && d > 0 {
            // order independence: the same multiset in canonical order
            let mut canon: Vec<Vec<i64>> = delivered.iter().filter(|o| o.len() == d).cloned().collect();
            canon.sort();
            let mut h2 = Histogram::new(grid_of::<T>(&scn.edges));
            for o in &canon {
                let _ = insert_obs(&mut h2, o, 0);
            }
            let (_, c2) = counts_of(&h2);
            if c2 != fin {
                viol = Some(("hist-order-dependence".into(), format!("counts {:?} after the delivered order, {:?} after the same observations in sorted order", fin, c2)));
            }
            // matrix form: observations as rows, rejected ones skipped
            let rows: Vec<&Vec<i64>> = delivered.iter().filter(|o| o.len() == d).collect();
            let flat_c: Vec<T> = rows.iter().flat_map(|o| o.iter().map(|&v| T::conv(v))).collect();
            let nrows = rows.len();
            let get = |i: usize, j: usize| T::conv(rows[i][j]);
            let owned: Array2<T> = match scn.matrix_order {
                1 => {
                    let mut flat_f: Vec<T> = Vec::with_capacity(flat_c.len());
                    for j in 0..d {
                        for i in 0..nrows {
                            flat_f.push(get(i, j));
                        }
                    }
                    Array2::from_shape_vec((nrows, d).f(), flat_f).unwrap()
                }
                2 => {
                    // stored with the coordinate axis reversed; the view below reverses it back
                    let mut v: Vec<T> = Vec::with_capacity(flat_c.len());
                    for i in 0..nrows {
                        for j in (0..d).rev() {
                            v.push(get(i, j));
                        }
                    }
                    Array2::from_shape_vec((nrows, d), v).unwrap()
                }
                3 => {
                    let mut v: Vec<T> = Vec::with_capacity(flat_c.len());
                    for i in (0..nrows).rev() {
                        for j in 0..d {
                            v.push(get(i, j));
                        }
                    }
                    Array2::from_shape_vec((nrows, d), v).unwrap()
                }
                _ => Array2::from_shape_vec((nrows, d), flat_c).unwrap(),
            };
            let m = match scn.matrix_order {
                2 => owned.slice(ndarray::s![.., ..;-1]),
                3 => owned.slice(ndarray::s![..;-1, ..]),
                _ => owned.view(),
            };
            let h3 = m.histogram(grid_of::<T>(&scn.edges));
            let (s3, c3) = counts_of(&h3);
            if viol.is_none() && (c3 != fin || s3 != model.shape()) {
                viol = Some(("hist-matrix-form".into(), format!("observations.histogram(grid) on a {} matrix gives counts {:?} (shape {:?}); inserting the same rows one at a time gives {:?}", ["row-major", "column-major", "coordinate-axis-reversed", "row-axis-reversed"][(scn.matrix_order % 4) as usize], c3, s3, fin)));
            }
        }
        (viol, events, faults, fin, model.accepted)
    });
    match out {
        Outcome::Done((viol, events, faults, fin, accepted)) => {
            for e in &events {
                cx.dg.ev(*e);
            }
            for c in &fin {
                cx.dg.ev(*c as u64);
            }
            for f in faults {
                if let Some(p) = f.strip_prefix("probe:") {
                    cx.stats.probe(if p == "obs_on_interior_edge" { "obs_on_interior_edge" } else { "other" });
                } else {
                    cx.stats.fault(f);
                }
            }
            cx.stats.ops += events.len() as u64;
            cx.stats.calls += events.len() as u64;
            let rejected = events.len() - accepted.min(events.len());
            if accepted >= 1 && rejected >= 1 {
                // distinct non-trivial case: grid signature + delivered sequence
                let mut h = fnv("hist");
                for e in &scn.edges {
                    let mut s = e.clone();
                    s.sort_unstable();
                    s.dedup();
                    for v in s {
                        h = mix(h, v as u64);
                    }
                    h = mix(h, 0xEE);
                }
                for o in &delivered {
                    for &v in o {
                        h = mix(h, v as u64);
                    }
                    h = mix(h, 0x0B);
                }
                cx.stats.case_hashes.push(h);
            }
            if let Some((class, msg)) = viol {
                cx.fail(&class, msg);
            }
        }
        Outcome::Panicked(m) => cx.fail("hist-panic", format!("histogram operation with matching arity panicked: {}", m)),
        Outcome::NoProgress => cx.fail("hist-panic", "histogram consumed entropy without bound".into()),
    }
    cx.finish()
}
