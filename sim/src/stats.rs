//! Per-run and per-batch measurements: what actually fired, what was reached.

use crate::entropy::{Draw, Kind, ALL_KINDS};
use crate::scenario::Violation;
use crate::util::Digest;
use std::collections::{BTreeMap, HashSet};

#[derive(Default, Clone, Debug)]
pub struct RunStats {
    pub ops: u64,
    pub calls: u64,
    pub draws: u64,
    pub max_draws_in_op: u64,
    pub policy_hist: [u64; 11],
    pub faults: BTreeMap<&'static str, u64>,
    pub probes: BTreeMap<&'static str, u64>,
    pub op_hist: BTreeMap<String, u64>,
    pub elem_hist: BTreeMap<&'static str, u64>,
    /// hashes of distinct non-trivial (order pattern, operation, pivot sequence) cases
    pub case_hashes: Vec<u64>,
    /// hashes of small-space triples (n <= 4) for the saturation measure
    pub small_hashes: Vec<u64>,
    /// known-finding class -> (count, first message)
    pub known: BTreeMap<String, (u64, String)>,
}

impl RunStats {
    pub fn fault(&mut self, name: &'static str) {
        *self.faults.entry(name).or_insert(0) += 1;
    }
    pub fn probe(&mut self, name: &'static str) {
        *self.probes.entry(name).or_insert(0) += 1;
    }
    pub fn policy(&mut self, k: Kind) {
        self.policy_hist[k.index()] += 1;
    }
    pub fn merge(&mut self, o: &RunStats) {
        self.ops += o.ops;
        self.calls += o.calls;
        self.draws += o.draws;
        self.max_draws_in_op = self.max_draws_in_op.max(o.max_draws_in_op);
        for i in 0..11 {
            self.policy_hist[i] += o.policy_hist[i];
        }
        for (k, v) in &o.faults {
            *self.faults.entry(k).or_insert(0) += v;
        }
        for (k, v) in &o.probes {
            *self.probes.entry(k).or_insert(0) += v;
        }
        for (k, v) in &o.op_hist {
            *self.op_hist.entry(k.clone()).or_insert(0) += v;
        }
        for (k, v) in &o.elem_hist {
            *self.elem_hist.entry(k).or_insert(0) += v;
        }
        for (k, (c, m)) in &o.known {
            let e = self.known.entry(k.clone()).or_insert((0, m.clone()));
            e.0 += c;
        }
    }
}

pub struct RunResult {
    pub violations: Vec<Violation>,
    pub stats: RunStats,
    pub digest: u64,
}

/// Execution context of one run.
pub struct Ctx {
    pub stats: RunStats,
    pub viol: Vec<Violation>,
    pub dg: Digest,
    pub op_index: usize,
}

impl Ctx {
    pub fn new() -> Ctx {
        Ctx { stats: RunStats::default(), viol: vec![], dg: Digest::new(), op_index: 0 }
    }
    pub fn fail(&mut self, class: &str, msg: String) {
        self.dg.evs(class);
        self.viol.push(Violation { class: class.to_string(), msg, op_index: self.op_index });
    }
    /// A failure matching the predicate of a recorded finding. It is only
    /// treated as known when known-findings.txt lists the class for the
    /// property under test; otherwise it is an ordinary violation.
    pub fn known(&mut self, class: &str, msg: String) {
        if crate::report::is_listed_finding(class) {
            self.dg.evs(class);
            let e = self.stats.known.entry(class.to_string()).or_insert((0, msg));
            e.0 += 1;
        } else {
            self.fail(class, msg);
        }
    }
    pub fn note_draws(&mut self, kind: Kind, draws: &[Draw]) {
        self.stats.policy(kind);
        self.stats.calls += 1;
        self.stats.draws += draws.len() as u64;
        self.stats.max_draws_in_op = self.stats.max_draws_in_op.max(draws.len() as u64);
        for d in draws {
            self.dg.ev(d.hint.unwrap_or(u64::MAX));
            self.dg.ev(d.pick);
            if d.hint == Some(2) {
                self.stats.probe("range_2_reached");
            }
            if d.hint.is_none() {
                self.stats.probe("unhinted_draw");
            }
        }
    }
    pub fn finish(self) -> RunResult {
        RunResult { violations: self.viol, stats: self.stats, digest: self.dg.finish() }
    }
}

/// Batch-level accumulation.
pub struct BatchStats {
    pub runs: u64,
    pub stats: RunStats,
    pub distinct: HashSet<u64>,
    pub distinct_capped: bool,
    pub small: HashSet<u64>,
    pub digest_xor: u64,
    pub digest_sum: u64,
}

pub const DISTINCT_CAP: usize = 24_000_000;

impl BatchStats {
    pub fn new() -> BatchStats {
        BatchStats {
            runs: 0,
            stats: RunStats::default(),
            distinct: HashSet::new(),
            distinct_capped: false,
            small: HashSet::new(),
            digest_xor: 0,
            digest_sum: 0,
        }
    }
    pub fn add_run(&mut self, r: &RunResult) {
        self.runs += 1;
        self.stats.merge(&r.stats);
        for &h in &r.stats.case_hashes {
            if self.distinct.len() < DISTINCT_CAP {
                self.distinct.insert(h);
            } else {
                self.distinct_capped = true;
            }
        }
        for &h in &r.stats.small_hashes {
            self.small.insert(h);
        }
        self.digest_xor ^= r.digest;
        self.digest_sum = self.digest_sum.wrapping_add(r.digest);
    }
    pub fn merge(&mut self, o: BatchStats) {
        self.runs += o.runs;
        self.stats.merge(&o.stats);
        for h in o.distinct {
            if self.distinct.len() < DISTINCT_CAP {
                self.distinct.insert(h);
            } else {
                self.distinct_capped = true;
            }
        }
        self.distinct_capped |= o.distinct_capped;
        self.small.extend(o.small);
        self.digest_xor ^= o.digest_xor;
        self.digest_sum = self.digest_sum.wrapping_add(o.digest_sum);
    }
    pub fn policy_json(&self) -> serde_json::Value {
        let mut m = serde_json::Map::new();
        for k in ALL_KINDS {
            m.insert(k.name().to_string(), serde_json::json!(self.stats.policy_hist[k.index()]));
        }
        serde_json::Value::Object(m)
    }
}
