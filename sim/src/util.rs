//! Harness-private PRNG, hashing and small helpers. The harness never uses the
//! `rand` crate for its own choices, so it never consumes the stream it serves.

#[inline]
pub fn splitmix64(x: &mut u64) -> u64 {
    *x = x.wrapping_add(0x9E37_79B9_7F4A_7C15);
    let mut z = *x;
    z = (z ^ (z >> 30)).wrapping_mul(0xBF58_476D_1CE4_E5B9);
    z = (z ^ (z >> 27)).wrapping_mul(0x94D0_49BB_1331_11EB);
    z ^ (z >> 31)
}

pub fn mix(a: u64, b: u64) -> u64 {
    let mut s = a ^ b.rotate_left(32) ^ 0xD6E8_FEB8_6659_FD93;
    let x = splitmix64(&mut s);
    x ^ splitmix64(&mut s).rotate_left(17)
}

pub fn fnv(s: &str) -> u64 {
    let mut h: u64 = 0xcbf2_9ce4_8422_2325;
    for b in s.bytes() {
        h ^= b as u64;
        h = h.wrapping_mul(0x0000_0100_0000_01B3);
    }
    h
}

/// xoshiro256**
#[derive(Clone, Debug)]
pub struct Rng {
    s: [u64; 4],
}

impl Rng {
    pub fn new(seed: u64) -> Rng {
        let mut x = seed;
        let s = [
            splitmix64(&mut x),
            splitmix64(&mut x),
            splitmix64(&mut x),
            splitmix64(&mut x),
        ];
        Rng { s }
    }
    #[inline]
    pub fn next(&mut self) -> u64 {
        let r = self.s[1].wrapping_mul(5).rotate_left(7).wrapping_mul(9);
        let t = self.s[1] << 17;
        self.s[2] ^= self.s[0];
        self.s[3] ^= self.s[1];
        self.s[1] ^= self.s[2];
        self.s[0] ^= self.s[3];
        self.s[2] ^= t;
        self.s[3] = self.s[3].rotate_left(45);
        r
    }
    /// uniform in 0..n (n >= 1); slight modulo bias is irrelevant here
    #[inline]
    pub fn below(&mut self, n: usize) -> usize {
        debug_assert!(n > 0);
        ((self.next() as u128 * n as u128) >> 64) as usize
    }
    /// uniform in lo..=hi
    #[inline]
    pub fn range(&mut self, lo: i64, hi: i64) -> i64 {
        debug_assert!(lo <= hi);
        let span = (hi as i128 - lo as i128 + 1) as u128;
        let r = ((self.next() as u128 * span) >> 64) as i128;
        (lo as i128 + r) as i64
    }
    #[inline]
    pub fn chance(&mut self, num: u32, den: u32) -> bool {
        (self.below(den as usize) as u32) < num
    }
    #[inline]
    pub fn unit(&mut self) -> f64 {
        (self.next() >> 11) as f64 * (1.0 / (1u64 << 53) as f64)
    }
    pub fn pick<'a, T>(&mut self, xs: &'a [T]) -> &'a T {
        &xs[self.below(xs.len())]
    }
    pub fn shuffle<T>(&mut self, xs: &mut [T]) {
        for i in (1..xs.len()).rev() {
            let j = self.below(i + 1);
            xs.swap(i, j);
        }
    }
    /// choose an index according to integer weights
    pub fn weighted(&mut self, w: &[u32]) -> usize {
        let tot: u32 = w.iter().sum();
        let mut r = self.below(tot as usize) as u32;
        for (i, &x) in w.iter().enumerate() {
            if r < x {
                return i;
            }
            r -= x;
        }
        w.len() - 1
    }
}

/// Running 64-bit digest of an event trace.
#[derive(Clone, Copy, Debug)]
pub struct Digest(pub u64);

impl Digest {
    pub fn new() -> Digest {
        Digest(0x243F_6A88_85A3_08D3)
    }
    #[inline]
    pub fn ev(&mut self, x: u64) {
        self.0 = (self.0 ^ x).wrapping_mul(0x9E37_79B9_7F4A_7C15).rotate_left(29) ^ (x >> 7);
    }
    pub fn evs(&mut self, s: &str) {
        self.ev(fnv(s));
    }
    pub fn evi(&mut self, x: i64) {
        self.ev(x as u64)
    }
    pub fn finish(&self) -> u64 {
        let mut s = self.0;
        splitmix64(&mut s)
    }
}

/// next representable f64 above x (finite x)
pub fn next_up(x: f64) -> f64 {
    if x.is_nan() || x == f64::INFINITY {
        return x;
    }
    if x == 0.0 {
        return f64::from_bits(1);
    }
    let b = x.to_bits();
    if x > 0.0 {
        f64::from_bits(b + 1)
    } else {
        f64::from_bits(b - 1)
    }
}

pub fn next_down(x: f64) -> f64 {
    -next_up(-x)
}

pub fn ulp(x: f64) -> f64 {
    let a = x.abs();
    if !a.is_finite() {
        return f64::INFINITY;
    }
    let u = next_up(a) - a;
    if u.is_finite() {
        u
    } else {
        a - next_down(a)
    }
}

/// Deep recursion in the library (quickselect on long runs of equal elements
/// recurses once per element) needs more stack than a default thread has.
pub const BIG_STACK: usize = 1 << 30;

pub fn with_big_stack<R: Send>(f: impl FnOnce() -> R + Send) -> R {
    std::thread::scope(|s| {
        std::thread::Builder::new()
            .stack_size(BIG_STACK)
            .spawn_scoped(s, f)
            .expect("spawn thread")
            .join()
            .unwrap_or_else(|e| std::panic::resume_unwind(e))
    })
}
