mod crash;
mod detbulk;
mod elem;
mod entropy;
mod exec;
mod gen;
mod hist;
mod laws;
mod minimise;
mod nan;
mod reference;
mod reject;
mod report;
mod runner;
mod scenario;
mod stats;
mod util;
mod world;

use exec::Prop;
use gen::Tier;
use runner::{generate, run_batch, AnyScn};
use serde_json::{json, Value};
use std::collections::BTreeMap;
use std::path::PathBuf;

const DEFAULT_SEED: u64 = 20261002;

fn usage() -> ! {
    eprintln!(
        "usage:\n  simctl run <C01|C02|C03|C11|C14|C16|C18|C19> <quick|thorough> [--runs N] [--threads N] [--seed N] [--evidence PATH] [--max-secs S]\n  simctl replay <file>\n  simctl gen <prop> <tier> <seed> <run>\n  simctl digests <prop> <tier> [--runs N] [--threads N] [--seed N]"
    );
    std::process::exit(2);
}

fn default_runs(prop: Prop, tier: Tier) -> u64 {
    let q = match prop {
        Prop::C01 => 1_000_000,
        Prop::C02 => 2_000_000,
        Prop::C03 => 2_000_000,
        Prop::C11 => 2_000_000,
        Prop::C14 => 3_000_000,
        Prop::C16 => 1_500_000,
        Prop::C18 => 600_000,
        Prop::C19 => 1_500_000,
    };
    match tier {
        Tier::Quick => q,
        Tier::Thorough => match prop {
            Prop::C01 => 20_000_000,
            Prop::C02 => 40_000_000,
            Prop::C03 => 40_000_000,
            Prop::C11 => 30_000_000,
            Prop::C14 => 60_000_000,
            Prop::C16 => 20_000_000,
            Prop::C18 => 8_000_000,
            Prop::C19 => 15_000_000,
        },
    }
}

struct Args {
    pos: Vec<String>,
    opts: BTreeMap<String, String>,
}

fn parse_args() -> Args {
    let mut pos = vec![];
    let mut opts = BTreeMap::new();
    let mut it = std::env::args().skip(1);
    while let Some(a) = it.next() {
        if let Some(k) = a.strip_prefix("--") {
            let v = it.next().unwrap_or_default();
            opts.insert(k.to_string(), v);
        } else {
            pos.push(a);
        }
    }
    Args { pos, opts }
}

fn seed_from(args: &Args) -> u64 {
    if let Some(s) = args.opts.get("seed") {
        return s.parse().unwrap_or(DEFAULT_SEED);
    }
    match std::env::var("VERIF_SEED") {
        Ok(s) if !s.trim().is_empty() => s.trim().parse::<u64>().unwrap_or_else(|_| util::fnv(s.trim())),
        _ => DEFAULT_SEED,
    }
}

fn tier_of(s: &str) -> Tier {
    match s {
        "thorough" => Tier::Thorough,
        "quick" => Tier::Quick,
        _ => usage(),
    }
}

fn main() {
    let args = parse_args();
    if args.pos.is_empty() {
        usage();
    }
    entropy::install_quiet_hook();
    match args.pos[0].as_str() {
        "run" => {
            if args.opts.contains_key("worker") {
                crash::install_crash_handlers();
                cmd_run(&args)
            } else {
                supervise_run(&args)
            }
        }
        "replay" => supervise_replay(&args),
        "replay-raw" => {
            crash::install_crash_handlers();
            cmd_replay(&args)
        }
        "one" => {
            crash::install_crash_handlers();
            cmd_one(&args)
        }
        "gen" => {
            if args.pos.len() < 5 {
                usage();
            }
            let prop = Prop::from_name(&args.pos[1]).unwrap_or_else(|| usage());
            let tier = tier_of(&args.pos[2]);
            let seed: u64 = args.pos[3].parse().unwrap_or(DEFAULT_SEED);
            let idx: u64 = args.pos[4].parse().unwrap_or(0);
            let scn = generate(prop, seed, idx, tier);
            println!("{}", serde_json::to_string_pretty(&scn.to_json()).unwrap());
        }
        "digests" => {
            if args.pos.len() < 3 {
                usage();
            }
            let prop = Prop::from_name(&args.pos[1]).unwrap_or_else(|| usage());
            report::load_known(prop.name());
            let tier = tier_of(&args.pos[2]);
            let seed = seed_from(&args);
            let runs: u64 = args.opts.get("runs").and_then(|s| s.parse().ok()).unwrap_or(512);
            if let Some(only) = args.opts.get("only").and_then(|s| s.parse::<u64>().ok()) {
                let r = util::with_big_stack(|| generate(prop, seed, only, tier).exec(prop));
                println!("{} {} {:016x}", prop.name(), only, r.digest);
                return;
            }
            for i in 0..runs {
                let r = util::with_big_stack(|| generate(prop, seed, i, tier).exec(prop));
                println!("{} {} {:016x}", prop.name(), i, r.digest);
            }
        }
        _ => usage(),
    }
}

fn cmd_run(args: &Args) {
    if args.pos.len() < 3 {
        usage();
    }
    let prop = Prop::from_name(&args.pos[1]).unwrap_or_else(|| usage());
    let tier = tier_of(&args.pos[2]);
    let seed = seed_from(args);
    let runs: u64 = args.opts.get("runs").and_then(|s| s.parse().ok()).unwrap_or_else(|| default_runs(prop, tier));
    let threads: usize = args
        .opts
        .get("threads")
        .and_then(|s| s.parse().ok())
        .unwrap_or_else(|| std::thread::available_parallelism().map(|n| n.get()).unwrap_or(8).min(16));
    let max_secs: f64 = args.opts.get("max-secs").and_then(|s| s.parse().ok()).unwrap_or(if tier == Tier::Quick { 150.0 } else { 3000.0 });
    let evidence_path: PathBuf = args
        .opts
        .get("evidence")
        .map(PathBuf::from)
        .unwrap_or_else(|| report::verif_dir().join("evidence").join(format!("{}.json", prop.name())));
    report::load_known(prop.name());
    println!("VERIF_SEED={} property={} tier={:?} runs={} threads={} profile={}", seed, prop.name(), tier, runs, threads, report::profile_name());

    let exclude: Vec<u64> = args.opts.get("exclude").map(|s| s.split(',').filter_map(|x| x.parse().ok()).collect()).unwrap_or_default();
    let extra_violations: usize = args.opts.get("extra-violations").and_then(|s| s.parse().ok()).unwrap_or(0);
    if let Some(w) = args.opts.get("watchdog-secs").and_then(|s| s.parse::<u64>().ok()) {
        runner::WATCHDOG_OVERRIDE.store(w, std::sync::atomic::Ordering::Relaxed);
    }
    let out = run_batch(prop, tier, seed, runs, threads, max_secs, &exclude);

    let mut hidden_state_note: Option<String> = None;
    let mut unowned_entropy = false;
    if let Some(i) = out.determinism_mismatch {
        // Two executions of run i in this process disagreed. If two fresh processes agree with
        // each other, the simulator is deterministic and the library carries state from one
        // call to later ones (thread-local / global); that is reported, not treated as a
        // harness failure. The oracles judge every run on its own either way.
        let fresh = |_: u8| {
            std::process::Command::new(self_exe())
                .args(["digests", prop.name(), if tier == Tier::Quick { "quick" } else { "thorough" }, "--seed", &seed.to_string(), "--only", &i.to_string()])
                .output()
                .map(|o| String::from_utf8_lossy(&o.stdout).to_string())
                .unwrap_or_default()
        };
        let (a, b) = (fresh(0), fresh(1));
        if !a.is_empty() && a == b {
            let msg = format!("run {} gave different traces when executed twice in one process but identical traces in two fresh processes: the library keeps state between calls", i);
            println!("NOTE: {}", msg);
            hidden_state_note = Some(msg);
        } else {
            // Fresh processes disagree too. The simulator's own choices are a pure function of the seed
            // (tools/determinism.sh), so the library must be drawing entropy the seam does not own
            // (something other than rand::thread_rng: OsRng, from_entropy, the clock ...). Oracles still
            // judge every run; replays of violations are retried because they may need a lucky draw.
            let msg = format!("run {} is not reproducible even across fresh processes: the library draws entropy from a source other than rand::thread_rng, which the simulator does not own; schedules are then sampled by the real source, not chosen", i);
            println!("NOTE: {}", msg);
            hidden_state_note = Some(msg);
            unowned_entropy = true;
        }
    }

    // samples: the first few runs of this batch, written out
    let mut samples = vec![];
    for i in 0..3u64.min(out.stats.runs) {
        let scn = generate(prop, seed, i, tier);
        let (r, trace) = report::exec_traced(prop, &scn);
        let mut j = scn.to_json();
        j.as_object_mut().unwrap().insert("run".into(), json!(i));
        j.as_object_mut().unwrap().insert("draw_trace".into(), trace);
        j.as_object_mut().unwrap().insert("digest".into(), json!(format!("{:016x}", r.digest)));
        samples.push(j);
    }

    // one report per violation class, lowest run first
    let mut by_class: BTreeMap<String, &runner::Found> = BTreeMap::new();
    for f in &out.found {
        by_class.entry(f.violation.class.clone()).or_insert(f);
    }
    let mut exit_code = 0;
    let mut reported = 0usize;
    let mut harness_error = false;
    for (class, f) in &by_class {
        let scn0 = generate(prop, seed, f.run, tier);
        let (scn, v, minimised) = minimise::minimise(prop, scn0, &f.violation);
        let (_r, trace) = report::exec_traced(prop, &scn);
        let j = report::replay_json(prop, &scn, &v, seed, f.run, tier, trace, minimised);
        let path = report::write_replay(prop, seed, f.run, &j);
        let mut verified = report::verify_in_fresh_process(&path, class);
        if unowned_entropy {
            // with entropy the simulator does not own a replay reproduces only with some probability
            for _ in 0..40 {
                if matches!(verified, Ok(true)) {
                    break;
                }
                verified = report::verify_in_fresh_process(&path, class);
            }
        }
        match verified {
            Ok(true) => {
                println!("VIOLATION property={} replay={} class={} run={} :: {}", prop.name(), path.display(), class, f.run, v.msg);
                exit_code = 1;
                reported += 1;
            }
            Ok(false) => {
                // The scenario alone does not fail in a fresh process: the failure depended on what
                // the library had seen earlier on the same thread (state kept between calls).
                // Replay the whole history of that worker thread, minimised.
                match sequence_replay(prop, tier, seed, f, class) {
                    Some((p2, msg)) => {
                        println!("VIOLATION property={} replay={} class={} run={} :: {}", prop.name(), p2.display(), class, f.run, msg);
                        exit_code = 1;
                        reported += 1;
                    }
                    None => {
                        eprintln!("HARNESS ERROR: replay {} did not reproduce class {} in a fresh process, nor did the history of its worker thread", path.display(), class);
                        harness_error = true;
                    }
                }
            }
            Err(e) => {
                eprintln!("HARNESS ERROR: could not re-execute replay: {}", e);
                harness_error = true;
            }
        }
    }
    let known_lines = report::known_lines_for(prop.name());
    for (class, (n, msg)) in &out.stats.stats.known {
        println!("KNOWN-FINDING: property={} class={} hits={} e.g. {}", prop.name(), class, n, msg);
    }
    let mut ev = report::evidence_json(prop, tier, seed, &out, samples, reported + extra_violations, &known_lines);
    if let Some(n) = &hidden_state_note {
        ev["coverage"]["determinism"]["library_state_between_calls_suspected"] = json!(n);
    }
    if !exclude.is_empty() {
        ev["coverage"]["runs_excluded_because_they_crashed_the_worker_process"] = json!(exclude);
    }
    if let Some(dir) = evidence_path.parent() {
        let _ = std::fs::create_dir_all(dir);
    }
    if let Err(e) = std::fs::write(&evidence_path, serde_json::to_string_pretty(&ev).unwrap()) {
        eprintln!("HARNESS ERROR: cannot write evidence {}: {}", evidence_path.display(), e);
        std::process::exit(2);
    }
    println!(
        "runs={} distinct_nontrivial={} calls={} draws={} wall={:.1}s runs/hour={} violations={} known_finding_hits={}",
        out.stats.runs,
        out.stats.distinct.len(),
        out.stats.stats.calls,
        out.stats.stats.draws,
        out.wall_s,
        (out.stats.runs as f64 / out.wall_s.max(1e-9) * 3600.0) as u64,
        reported,
        out.stats.stats.known.values().map(|x| x.0).sum::<u64>()
    );
    if harness_error && exit_code == 0 {
        std::process::exit(2);
    }
    std::process::exit(exit_code);
}

/// execute scenarios one after the other on one fresh thread; the violation of the last one, if it has `class`
fn run_sequence(prop: Prop, scns: &[AnyScn], class: &str) -> Option<scenario::Violation> {
    let (tx, rx) = std::sync::mpsc::channel();
    let v: Vec<AnyScn> = scns.to_vec();
    let cl = class.to_string();
    let _ = std::thread::Builder::new().stack_size(util::BIG_STACK).spawn(move || {
        let mut last = None;
        for s in &v {
            let r = s.exec(prop);
            last = r.violations.into_iter().find(|x| x.class == cl);
        }
        let _ = tx.send(last);
    });
    rx.recv_timeout(std::time::Duration::from_secs(20)).ok().flatten()
}

fn sequence_replay(prop: Prop, tier: Tier, seed: u64, f: &runner::Found, class: &str) -> Option<(PathBuf, String)> {
    let mut scns: Vec<AnyScn> = f.prior.iter().map(|&i| generate(prop, seed, i, tier)).collect();
    scns.push(generate(prop, seed, f.run, tier));
    let mut v = run_sequence(prop, &scns, class)?;
    // drop earlier scenarios while the last one still fails the same way
    let mut k = 0;
    let mut budget = 400;
    while k + 1 < scns.len() && budget > 0 {
        let mut c = scns.clone();
        c.remove(k);
        budget -= 1;
        if let Some(nv) = run_sequence(prop, &c, class) {
            scns = c;
            v = nv;
        } else {
            k += 1;
        }
    }
    let j = json!({
        "kind": "sequence",
        "property": prop.name(),
        "scenarios": scns.iter().map(|s| s.to_json()).collect::<Vec<_>>(),
        "violation": {"class": v.class, "message": v.msg, "op_index": v.op_index, "in_scenario": scns.len() - 1},
        "found_by": {"VERIF_SEED": seed, "run": f.run, "tier": if tier == Tier::Quick {"quick"} else {"thorough"}, "profile": report::profile_name(), "minimised": true},
        "note": "the scenarios are executed one after the other on one thread; the last one violates the property only after the earlier ones (the library keeps state between calls)",
    });
    let path = report::write_replay(prop, seed, f.run, &j);
    match report::verify_in_fresh_process(&path, class) {
        Ok(true) => Some((path, format!("after {} earlier scenario(s) on the same thread: {}", scns.len() - 1, v.msg))),
        _ => None,
    }
}

fn self_exe() -> PathBuf {
    std::env::current_exe().unwrap_or_else(|_| PathBuf::from("simctl"))
}

fn raw_args() -> Vec<String> {
    std::env::args().skip(1).collect()
}

/// Run the batch in a child process; if the child dies on a signal, attribute
/// the crash to a run by re-executing the runs that were in flight one by one.
fn supervise_run(args: &Args) {
    if args.pos.len() < 3 {
        usage();
    }
    let prop = Prop::from_name(&args.pos[1]).unwrap_or_else(|| usage());
    let tier = tier_of(&args.pos[2]);
    let seed = seed_from(args);
    let mut exclude: Vec<u64> = vec![];
    let mut crash_violations = 0usize;
    let mut hung = false;
    // the check rewrites its evidence on every run: never leave a stale file behind
    let evidence_path: PathBuf = args.opts.get("evidence").map(PathBuf::from).unwrap_or_else(|| report::verif_dir().join("evidence").join(format!("{}.json", prop.name())));
    let _ = std::fs::remove_file(&evidence_path);
    for _round in 0..12 {
        let mut cmd = std::process::Command::new(self_exe());
        cmd.args(raw_args()).arg("--worker").arg("1").arg("--seed").arg(seed.to_string());
        if hung {
            // the library is known to hang on this tree: do not wait a minute for every further run that does
            cmd.arg("--watchdog-secs").arg("5");
        }
        if !exclude.is_empty() {
            cmd.arg("--exclude").arg(exclude.iter().map(|x| x.to_string()).collect::<Vec<_>>().join(","));
            cmd.arg("--extra-violations").arg(crash_violations.to_string());
        }
        cmd.stderr(std::process::Stdio::piped());
        let out = match cmd.output() {
            Ok(o) => o,
            Err(e) => {
                eprintln!("HARNESS ERROR: cannot start worker: {}", e);
                std::process::exit(2);
            }
        };
        print!("{}", String::from_utf8_lossy(&out.stdout));
        let err = String::from_utf8_lossy(&out.stderr).to_string();
        if out.status.code() == Some(71) {
            // a run hung (reported by the worker's watchdog): resume without it
            if let Some(idx) = err.lines().find_map(|l| l.strip_prefix("HANG run=")).and_then(|x| x.trim().parse::<u64>().ok()) {
                if !exclude.contains(&idx) {
                    exclude.push(idx);
                    crash_violations += 1;
                    hung = true;
                    continue;
                }
            }
            write_minimal_evidence(prop, tier, seed, &exclude, &evidence_path);
            std::process::exit(1);
        }
        let crashed = out.status.code() == Some(70) || out.status.code().is_none();
        if !crashed {
            eprint!("{}", err.lines().filter(|l| !l.starts_with("FOUND run=")).map(|l| format!("{}\n", l)).collect::<String>());
            let code = out.status.code().unwrap_or(2);
            if crash_violations > 0 && code == 0 {
                std::process::exit(1);
            }
            std::process::exit(code);
        }
        // the worker died: which run?
        let (sig, cands) = crash::parse_crash(&err).unwrap_or((0, vec![]));
        eprintln!("worker process died (signal {}); runs in flight: {:?}; re-executing each alone", sig, cands);
        let mut attributed = false;
        for idx in cands {
            if exclude.contains(&idx) {
                continue;
            }
            let o = std::process::Command::new(self_exe())
                .args(["one", prop.name(), if tier == Tier::Quick { "quick" } else { "thorough" }, &seed.to_string(), &idx.to_string()])
                .output();
            if let Ok(o) = o {
                let died = o.status.code() == Some(70) || o.status.code().is_none();
                let text = String::from_utf8_lossy(&o.stdout).to_string();
                if died {
                    let path = text.lines().find_map(|l| l.strip_prefix("REPLAY ")).unwrap_or("").to_string();
                    println!("VIOLATION property={} replay={} class=crash run={} :: the library crashed the process (signal) while executing this scenario", prop.name(), path, idx);
                    exclude.push(idx);
                    crash_violations += 1;
                    attributed = true;
                } else if let Some(p) = text.lines().find_map(|l| l.strip_prefix("REPLAY ")) {
                    let _ = std::fs::remove_file(p);
                }
            }
        }
        if !attributed {
            // fall back on violations the worker announced before it died
            let mut found: Vec<(u64, String)> = err
                .lines()
                .filter_map(|l| {
                    let r = l.strip_prefix("FOUND run=")?;
                    let mut it = r.split(" class=");
                    Some((it.next()?.parse().ok()?, it.next()?.to_string()))
                })
                .collect();
            found.sort();
            if let Some((idx, class)) = found.first() {
                let scn = generate(prop, seed, *idx, tier);
                let v = scenario::Violation { class: class.clone(), msg: "found by a worker process that later died on a signal; not minimised".into(), op_index: 0 };
                let j = report::replay_json(prop, &scn, &v, seed, *idx, tier, json!([]), false);
                let path = report::write_replay(prop, seed, *idx, &j);
                println!("VIOLATION property={} replay={} class={} run={} :: {}", prop.name(), path.display(), class, idx, v.msg);
                std::process::exit(1);
            }
            eprintln!("HARNESS ERROR: the worker process crashed but no single run reproduces the crash in isolation\n{}", err);
            std::process::exit(2);
        }
    }
    write_minimal_evidence(prop, tier, seed, &exclude, &evidence_path);
    std::process::exit(1);
}

/// Evidence for a batch that could not be completed because run after run crashed or hung.
fn write_minimal_evidence(prop: Prop, tier: Tier, seed: u64, bad_runs: &[u64], path: &PathBuf) {
    let samples: Vec<Value> = bad_runs.iter().take(4).map(|&i| generate(prop, seed, i, tier).to_json()).collect();
    let distinct: std::collections::BTreeSet<String> = bad_runs.iter().map(|&i| generate(prop, seed, i, tier).to_json().to_string()).collect();
    let ev = json!({
        "property_id": prop.name(),
        "tier": if tier == Tier::Quick { "quick" } else { "thorough" },
        "seed": seed,
        "level": "exploration",
        "coverage": {
            "evaluations": bad_runs.len(),
            "distinct_nontrivial": distinct.len(),
            "rule": "the batch was abandoned: every listed run crashed or hung the worker process; evaluations counts only those runs (each re-executed alone in a fresh process), distinct_nontrivial the distinct scenarios among them",
            "samples": samples,
            "runs_that_crashed_or_hung": bad_runs,
            "exhaustive": false
        },
        "assumptions": ["see MANIFEST.json level_note"],
        "wall_s": 0.0,
        "violations": bad_runs.len(),
    });
    if let Some(dir) = path.parent() {
        let _ = std::fs::create_dir_all(dir);
    }
    let _ = std::fs::write(path, serde_json::to_string_pretty(&ev).unwrap());
}

/// one run in this process: write the replay file first, then execute
fn cmd_one(args: &Args) {
    if args.pos.len() < 5 {
        usage();
    }
    let prop = Prop::from_name(&args.pos[1]).unwrap_or_else(|| usage());
    let tier = tier_of(&args.pos[2]);
    let seed: u64 = args.pos[3].parse().unwrap_or(DEFAULT_SEED);
    let idx: u64 = args.pos[4].parse().unwrap_or(0);
    report::load_known(prop.name());
    let scn = generate(prop, seed, idx, tier);
    let v = scenario::Violation { class: "crash".into(), msg: "the process died on a signal while executing this scenario".into(), op_index: 0 };
    let j = report::replay_json(prop, &scn, &v, seed, idx, tier, json!([]), false);
    let path = report::write_replay(prop, seed, idx, &j);
    println!("REPLAY {}", path.display());
    use std::io::Write;
    let _ = std::io::stdout().flush();
    let r = util::with_big_stack(|| scn.exec(prop));
    std::process::exit(if r.violations.is_empty() { 0 } else { 1 });
}

fn supervise_replay(args: &Args) {
    if args.pos.len() < 2 {
        usage();
    }
    // a replay recorded under the other build profile is executed by that binary
    let mut exe = self_exe();
    if let Ok(text) = std::fs::read_to_string(&args.pos[1]) {
        if let Ok(v) = serde_json::from_str::<Value>(&text) {
            let want_relcheck = v["found_by"]["profile"].as_str().map(|p| p.starts_with("relcheck")).unwrap_or(false);
            let am_relcheck = cfg!(debug_assertions);
            if want_relcheck != am_relcheck {
                let other = exe.parent().and_then(|p| p.parent()).map(|t| t.join(if want_relcheck { "relcheck" } else { "release" }).join("simctl"));
                if let Some(o) = other {
                    if o.exists() {
                        exe = o;
                    }
                }
            }
        }
    }
    let out = std::process::Command::new(exe).arg("replay-raw").arg(&args.pos[1]).output();
    match out {
        Ok(o) => {
            print!("{}", String::from_utf8_lossy(&o.stdout));
            eprint!("{}", String::from_utf8_lossy(&o.stderr));
            if o.status.code() == Some(70) || o.status.code().is_none() {
                let prop = std::fs::read_to_string(&args.pos[1]).ok().and_then(|t| serde_json::from_str::<Value>(&t).ok()).and_then(|v| v["property"].as_str().map(|s| s.to_string())).unwrap_or_default();
                println!("VIOLATION property={} replay={} class=crash :: the library crashed the process (signal) while executing this scenario", prop, args.pos[1]);
                std::process::exit(1);
            }
            std::process::exit(o.status.code().unwrap_or(2));
        }
        Err(e) => {
            eprintln!("HARNESS ERROR: cannot start replay process: {}", e);
            std::process::exit(2);
        }
    }
}

fn cmd_replay(args: &Args) {
    if args.pos.len() < 2 {
        usage();
    }
    let text = std::fs::read_to_string(&args.pos[1]).unwrap_or_else(|e| {
        eprintln!("cannot read {}: {}", args.pos[1], e);
        std::process::exit(2)
    });
    let v: Value = serde_json::from_str(&text).unwrap_or_else(|e| {
        eprintln!("bad json: {}", e);
        std::process::exit(2)
    });
    let prop = v["property"].as_str().and_then(Prop::from_name).unwrap_or_else(|| {
        eprintln!("replay file has no property");
        std::process::exit(2)
    });
    report::load_known(prop.name());
    if v["kind"].as_str() == Some("sequence") {
        let class = v["violation"]["class"].as_str().unwrap_or("").to_string();
        let mut scns = vec![];
        for sj in v["scenarios"].as_array().cloned().unwrap_or_default() {
            match AnyScn::from_json(&sj) {
                Ok(s) => scns.push(s),
                Err(e) => {
                    eprintln!("bad scenario in sequence: {}", e);
                    std::process::exit(2)
                }
            }
        }
        match run_sequence(prop, &scns, &class) {
            Some(viol) => {
                println!("VIOLATION property={} replay={} class={} op={} :: {}", prop.name(), args.pos[1], viol.class, viol.op_index, viol.msg);
                std::process::exit(1);
            }
            None => {
                println!("no violation: property {} held on this sequence", prop.name());
                std::process::exit(0);
            }
        }
    }
    let scn = AnyScn::from_json(&v).unwrap_or_else(|e| {
        eprintln!("bad scenario: {}", e);
        std::process::exit(2)
    });
    let want_class = v["violation"]["class"].as_str().map(|s| s.to_string());
    if want_class.as_deref() == Some("hang") {
        // execute under a watchdog thread
        let (tx, rx) = std::sync::mpsc::channel();
        let scn2 = scn.clone();
        let _ = std::thread::Builder::new().stack_size(util::BIG_STACK).spawn(move || {
            let r = scn2.exec(prop);
            let _ = tx.send(r.violations.len());
        });
        match rx.recv_timeout(std::time::Duration::from_secs(runner::WATCHDOG_SECS)) {
            Ok(_) => {
                println!("no hang: the run finished");
                std::process::exit(0);
            }
            Err(_) => {
                println!("VIOLATION property={} replay={} class=hang", prop.name(), args.pos[1]);
                std::process::exit(1);
            }
        }
    }
    let (r, trace) = report::exec_traced(prop, &scn);
    println!("digest {:016x}", r.digest);
    println!("draw trace: {}", trace);
    for (class, (n, msg)) in &r.stats.known {
        println!("KNOWN-FINDING: property={} class={} hits={} e.g. {}", prop.name(), class, n, msg);
    }
    if r.violations.is_empty() {
        println!("no violation: property {} held on this replay", prop.name());
        std::process::exit(0);
    }
    for viol in &r.violations {
        println!("VIOLATION property={} replay={} class={} op={} :: {}", prop.name(), args.pos[1], viol.class, viol.op_index, viol.msg);
    }
    std::process::exit(1);
}
