//! Crash containment. A changed library may contain undefined behaviour
//! (the NaN-stripping code builds views from raw pointers); a worker process
//! that dies on a signal reports which runs were in flight, and the supervisor
//! re-executes each of them alone in a fresh process to attribute the crash.

use crate::runner::CURRENT;
use std::sync::atomic::Ordering;

extern "C" fn on_crash(sig: libc::c_int) {
    // async-signal-safe: format into a stack buffer, write(2), _exit
    let mut buf = [0u8; 2048];
    let mut n = 0usize;
    let mut push = |b: &[u8], n: &mut usize| {
        for &c in b {
            if *n < buf.len() {
                buf[*n] = c;
                *n += 1;
            }
        }
    };
    fn num(mut v: u64, out: &mut [u8; 24]) -> usize {
        let mut i = 0;
        if v == 0 {
            out[0] = b'0';
            return 1;
        }
        let mut tmp = [0u8; 24];
        while v > 0 {
            tmp[i] = b'0' + (v % 10) as u8;
            v /= 10;
            i += 1;
        }
        for j in 0..i {
            out[j] = tmp[i - 1 - j];
        }
        i
    }
    let mut nb = [0u8; 24];
    push(b"\nCRASH sig=", &mut n);
    let l = num(sig as u64, &mut nb);
    push(&nb[..l], &mut n);
    push(b" runs=", &mut n);
    for slot in CURRENT.iter() {
        let v = slot.load(Ordering::Relaxed);
        if v != 0 {
            let l = num(v - 1, &mut nb);
            push(&nb[..l], &mut n);
            push(b",", &mut n);
        }
    }
    push(b"\n", &mut n);
    unsafe {
        libc::write(2, buf.as_ptr() as *const libc::c_void, n);
        libc::_exit(70);
    }
}

pub fn install_crash_handlers() {
    unsafe {
        for sig in [libc::SIGSEGV, libc::SIGBUS, libc::SIGILL, libc::SIGABRT, libc::SIGFPE] {
            let mut sa: libc::sigaction = std::mem::zeroed();
            sa.sa_sigaction = on_crash as usize;
            sa.sa_flags = libc::SA_ONSTACK | libc::SA_NODEFER;
            libc::sigemptyset(&mut sa.sa_mask);
            libc::sigaction(sig, &sa, std::ptr::null_mut());
        }
    }
}

/// parse "CRASH sig=N runs=a,b,c," out of a worker's stderr
pub fn parse_crash(stderr: &str) -> Option<(i32, Vec<u64>)> {
    for line in stderr.lines() {
        if let Some(rest) = line.strip_prefix("CRASH sig=") {
            let mut it = rest.split(" runs=");
            let sig: i32 = it.next()?.trim().parse().ok()?;
            let runs = it.next().unwrap_or("").split(',').filter_map(|x| x.trim().parse().ok()).collect();
            return Some((sig, runs));
        }
    }
    None
}
