//! Executes an array scenario against the real library and evaluates the
//! oracles of the property under test after every operation.

use crate::elem::{num_of_raw, Elem, NumVal, OrdElem};
use crate::entropy::{with_policy, Outcome, Policy, Session};
use crate::reference::{check_quantile, index_pairs, spread_representable};
use crate::scenario::{ElemTy, Op, Scenario, Strat};
use crate::stats::{Ctx, RunResult};
use crate::util::{fnv, mix};
use crate::world::{check_permutation_only, World};
use ndarray::{Array1, ArrayD, ArrayViewMut, ArrayViewMut1, ArrayViewMutD, Axis, Dimension, Ix1, Ix2, Ix3, Ix4, RemoveAxis, Slice};
use ndarray_stats::interpolate::{Higher, Linear, Lower, Midpoint, Nearest};
use ndarray_stats::{Quantile1dExt, QuantileExt, Sort1dExt};
use noisy_float::types::{n64, N64};

#[derive(Clone, Copy, Debug, PartialEq, Eq)]
pub enum Prop {
    C01,
    C02,
    C03,
    C11,
    C14,
    C16,
    C18,
    C19,
}

impl Prop {
    pub fn from_name(s: &str) -> Option<Prop> {
        Some(match s {
            "C01" => Prop::C01,
            "C02" => Prop::C02,
            "C03" => Prop::C03,
            "C11" => Prop::C11,
            "C14" => Prop::C14,
            "C16" => Prop::C16,
            "C18" => Prop::C18,
            "C19" => Prop::C19,
            _ => return None,
        })
    }
    pub fn name(self) -> &'static str {
        match self {
            Prop::C01 => "C01",
            Prop::C02 => "C02",
            Prop::C03 => "C03",
            Prop::C11 => "C11",
            Prop::C14 => "C14",
            Prop::C16 => "C16",
            Prop::C18 => "C18",
            Prop::C19 => "C19",
        }
    }
}

pub const ALL_PROPS: [Prop; 8] = [Prop::C01, Prop::C02, Prop::C03, Prop::C11, Prop::C14, Prop::C16, Prop::C18, Prop::C19];

pub fn budget(n: usize) -> usize {
    64 * n + 1024
}

#[macro_export]
macro_rules! with_strat {
    ($s:expr, $i:ident => $body:expr) => {
        match $s {
            Strat::Lower => {
                let $i = &Lower;
                $body
            }
            Strat::Higher => {
                let $i = &Higher;
                $body
            }
            Strat::Nearest => {
                let $i = &Nearest;
                $body
            }
            Strat::Midpoint => {
                let $i = &Midpoint;
                $body
            }
            Strat::Linear => {
                let $i = &Linear;
                $body
            }
        }
    };
}

#[macro_export]
macro_rules! with_dim {
    ($v:expr, $static:expr, |$vv:ident| $body:expr) => {{
        let v0 = $v;
        let nd = v0.ndim();
        if !$static || nd == 0 || nd > 4 {
            let $vv = v0;
            $body
        } else if nd == 1 {
            let $vv = v0.into_dimensionality::<Ix1>().unwrap();
            $body
        } else if nd == 2 {
            let $vv = v0.into_dimensionality::<Ix2>().unwrap();
            $body
        } else if nd == 3 {
            let $vv = v0.into_dimensionality::<Ix3>().unwrap();
            $body
        } else {
            let $vv = v0.into_dimensionality::<Ix4>().unwrap();
            $body
        }
    }};
}

/// 1-D lane of the view an operation works on, with the parent cells it aliases.
pub fn lane_cells<T: Elem>(w: &World<T>, lane: Option<(usize, usize)>) -> Option<Vec<usize>> {
    match lane {
        None => {
            if w.idx.ndim() == 1 {
                Some(w.all_cells())
            } else {
                None
            }
        }
        Some((a, k)) => {
            if a >= w.idx.ndim() {
                return None;
            }
            w.idx.lanes(Axis(a)).into_iter().nth(k).map(|l| l.to_vec())
        }
    }
}

pub fn lane_view<'a, T>(v: ArrayViewMutD<'a, T>, lane: Option<(usize, usize)>) -> ArrayViewMut1<'a, T> {
    match lane {
        None => v.into_dimensionality::<Ix1>().unwrap(),
        Some((a, k)) => {
            let mut v = v;
            // move to the k-th lane along axis a: index every other axis
            let nd = v.ndim();
            let shape = v.shape().to_vec();
            // lanes(a) visits the other axes in row-major order
            let mut rem = k;
            let mut coords = vec![0usize; nd];
            for ax in (0..nd).rev() {
                if ax == a {
                    continue;
                }
                coords[ax] = rem % shape[ax];
                rem /= shape[ax];
            }
            for ax in 0..nd {
                if ax != a {
                    v.slice_axis_inplace(Axis(ax), Slice::from(coords[ax]..coords[ax] + 1));
                }
            }
            // now all other axes have length 1: merge into a 1-D view along a
            let mut v = v;
            for ax in (0..nd).rev() {
                if ax != a {
                    v = v.index_axis_move(Axis(ax), 0);
                }
            }
            v.into_dimensionality::<Ix1>().unwrap()
        }
    }
}

/// A list argument (indexes or q values) in one of five forms: 0 owned array,
/// 1 plain view, 2 stepped view (junk between the entries), 3 reversed view,
/// 4 reversed stepped view.
pub struct ListArg<X> {
    pub backing: Array1<X>,
    pub form: u8,
}

impl<X: Clone> ListArg<X> {
    pub fn new(items: &[X], form: u8, junk: X) -> ListArg<X> {
        let form = form % 5;
        let backing = match form {
            2 => {
                let mut v = Vec::with_capacity(items.len() * 2);
                for x in items {
                    v.push(x.clone());
                    v.push(junk.clone());
                }
                v
            }
            3 => items.iter().rev().cloned().collect(),
            4 => {
                // s![..;-2] on 2k elements visits positions 2k-1, 2k-3, .., 1
                let mut v = Vec::with_capacity(items.len() * 2);
                for x in items.iter().rev() {
                    v.push(junk.clone());
                    v.push(x.clone());
                }
                v
            }
            _ => items.to_vec(),
        };
        ListArg { backing: Array1::from(backing), form }
    }
    pub fn view(&self) -> ndarray::ArrayView1<'_, X> {
        match self.form {
            2 => self.backing.slice(ndarray::s![..;2]),
            3 => self.backing.slice(ndarray::s![..;-1]),
            4 => self.backing.slice(ndarray::s![..;-2]),
            _ => self.backing.view(),
        }
    }
}

pub fn usize_list(idx: &[u64], form: u8) -> ListArg<usize> {
    ListArg::new(&idx.iter().map(|&i| i as usize).collect::<Vec<_>>(), form, usize::MAX / 3)
}

pub fn q_list(qs: &[f64], form: u8) -> ListArg<N64> {
    // the junk between entries is an invalid q
    ListArg::new(&qs.iter().map(|&q| n64(q)).collect::<Vec<_>>(), form, n64(7.5))
}

/// dense rank pattern of a list of raw values (missing values rank u32::MAX)
pub fn rank_pattern(ty: ElemTy, raws: &[i64]) -> Vec<u32> {
    let vals: Vec<Option<NumVal>> = raws
        .iter()
        .map(|&r| if ty.is_missing_raw(r) { None } else { Some(num_of_raw(ty, r)) })
        .collect();
    let mut order: Vec<usize> = (0..raws.len()).filter(|&i| vals[i].is_some()).collect();
    let key = |i: usize| vals[i].unwrap();
    order.sort_by(|&a, &b| match (key(a), key(b)) {
        (NumVal::I(x), NumVal::I(y)) => x.cmp(&y),
        (x, y) => x.as_f64().partial_cmp(&y.as_f64()).unwrap_or(std::cmp::Ordering::Equal),
    });
    let mut out = vec![u32::MAX; raws.len()];
    let mut rank = 0u32;
    for (j, &i) in order.iter().enumerate() {
        if j > 0 && !key(order[j - 1]).num_eq(key(i)) {
            rank += 1;
        }
        out[i] = rank;
    }
    out
}

pub fn hash_case(name: &str, pattern: &[u32], args: &[u64], sess: &Session) -> u64 {
    let mut h = fnv(name);
    for &p in pattern {
        h = mix(h, p as u64);
    }
    h = mix(h, 0xA5A5);
    for &a in args {
        h = mix(h, a);
    }
    h = mix(h, 0x5A5A);
    for d in &sess.draws {
        h = mix(h, d.hint.unwrap_or(u64::MAX));
        h = mix(h, d.pick);
    }
    h
}

/// Record coverage measurements for one library call.
pub fn note_case(cx: &mut Ctx, ty: ElemTy, name: &str, pre: &[i64], args: &[u64], pol: &Policy, sess: &Session) {
    cx.note_draws(pol.kind, &sess.draws);
    let n = pre.len();
    if n >= 2 && !sess.draws.is_empty() {
        let pat = rank_pattern(ty, pre);
        let h = hash_case(name, &pat, args, sess);
        cx.stats.case_hashes.push(h);
        if n <= 4 {
            cx.stats.small_hashes.push(h);
        }
        if sess.draws.len() + 1 >= n {
            cx.stats.probe("worst_case_chain_draws_ge_n_minus_1");
        }
        if let Some(d) = sess.draws.first() {
            if let Some(r) = d.hint {
                if r as usize == n && (d.pick as usize) < n {
                    let pv = pat[d.pick as usize];
                    if pat.iter().filter(|&&x| x == pv).count() >= 2 {
                        cx.stats.probe("first_pivot_is_duplicated_value");
                    }
                    if d.pick == 0 {
                        cx.stats.probe("first_pivot_first_element");
                    }
                    if d.pick as usize == n - 1 {
                        cx.stats.probe("first_pivot_last_element");
                    }
                }
            }
        }
    }
}

fn sorted_vals<T: OrdElem>(raws: &[i64]) -> Vec<T> {
    let mut v: Vec<T> = raws.iter().map(|&r| T::from_raw(r)).collect();
    v.sort();
    v
}

fn derive_policy(p: &Policy, k: u64) -> Policy {
    let mut q = p.clone();
    q.seed = mix(p.seed, k.wrapping_add(1));
    q
}

// ---------------------------------------------------------------------------
// Ord-element scenarios
// ---------------------------------------------------------------------------

pub fn exec_ord<T: OrdElem>(scn: &Scenario, prop: Prop) -> RunResult {
    let mut cx = Ctx::new();
    *cx.stats.elem_hist.entry(T::TY.name()).or_insert(0) += 1;
    let mut w = World::<T>::build(scn);
    if w.desc.slices.iter().any(|s| s.2 != 1) {
        cx.stats.probe("view_stepped_or_reversed");
    }
    if w.idx.len() < w.parent_len() {
        cx.stats.probe("view_has_guard_cells");
    }
    for (k, op) in scn.ops.iter().enumerate() {
        cx.op_index = k;
        crate::entropy::trace_mark(k);
        cx.dg.evs(&op.name);
        cx.stats.ops += 1;
        *cx.stats.op_hist.entry(op.name.clone()).or_insert(0) += 1;
        match op.name.as_str() {
            "select" => op_select(&mut cx, scn, &mut w, op, prop),
            "select_many" => op_select_many(&mut cx, scn, &mut w, op, prop),
            "partition" => op_partition(&mut cx, scn, &mut w, op, prop),
            "quantile_axis" | "quantiles_axis" | "quantile1" | "quantiles1" => op_quantile(&mut cx, scn, &mut w, op, prop),
            "law_monotone" | "law_sandwich" | "law_permute" | "law_relabel" => crate::laws::op_law(&mut cx, scn, &mut w, op),
            "bins_index" | "grid_index" => crate::reject::op_bins_grid(&mut cx, op),
            "moments" | "weighted_axis" => {
                if prop == Prop::C18 {
                    crate::detbulk::op_det_bulk(&mut cx, op)
                }
            }
            _ => {}
        }
        // the state after the operation is part of the trace
        for x in w.parent_cells().iter() {
            cx.dg.evi(x.to_raw());
        }
        if prop == Prop::C03 {
            if let Some(d) = w.padding_damage() {
                cx.fail("wrote-outside-parent", format!("{}: {}", op.name, d));
                break;
            }
        }
    }
    cx.finish()
}

fn outcome_tag<R>(o: &Outcome<R>) -> u64 {
    match o {
        Outcome::Done(_) => 1,
        Outcome::Panicked(_) => 2,
        Outcome::NoProgress => 3,
    }
}

/// Run `$body` (with `$v` bound to a mutable reference to the 1-D receiver) under
/// a policy, on the receiver kind the operation asks for. Yields
/// (outcome, session, lane contents afterwards, damage to an aliasing handle).
macro_rules! on_lane {
    ($w:expr, $lane:expr, $storage:expr, $pre:expr, $cells:expr, $pol:expr, $bud:expr, |$v:ident| $body:expr) => {{
        let vals: Vec<T> = $pre.iter().map(|&r| T::from_raw(r)).collect();
        match $storage {
            1 => {
                let mut arr = Array1::from(vals);
                let (o, s) = with_policy($pol, $bud, || {
                    let $v = &mut arr;
                    $body
                });
                let post: Vec<i64> = arr.iter().map(|x| x.to_raw()).collect();
                (o, s, post, None::<String>)
            }
            2 => {
                let mut arr = ndarray::ArcArray1::from(vals);
                let other = arr.clone();
                let (o, s) = with_policy($pol, $bud, || {
                    let $v = &mut arr;
                    $body
                });
                let post: Vec<i64> = arr.iter().map(|x| x.to_raw()).collect();
                let seen: Vec<i64> = other.iter().map(|x| x.to_raw()).collect();
                let dmg = if &seen != $pre { Some(format!("a second ArcArray handle sharing the buffer changed from {:?} to {:?}", $pre, seen)) } else { None };
                (o, s, post, dmg)
            }
            3 => {
                let base = Array1::from(vals);
                let mut arr = ndarray::CowArray::from(base.view());
                let (o, s) = with_policy($pol, $bud, || {
                    let $v = &mut arr;
                    $body
                });
                let post: Vec<i64> = arr.iter().map(|x| x.to_raw()).collect();
                let seen: Vec<i64> = base.iter().map(|x| x.to_raw()).collect();
                let dmg = if &seen != $pre { Some(format!("the array a CowArray was borrowing changed from {:?} to {:?}", $pre, seen)) } else { None };
                (o, s, post, dmg)
            }
            _ => {
                let lane = $lane;
                let (o, s) = with_policy($pol, $bud, || {
                    let mut vv = lane_view($w.view_mut(), lane);
                    let $v = &mut vv;
                    $body
                });
                let snap = $w.snapshot();
                let post: Vec<i64> = $cells.iter().map(|&c| snap[c]).collect();
                (o, s, post, None::<String>)
            }
        }
    }};
}

/// C03 for a 1-D operation: the lane holds the same multiset, nothing else changed
fn check_lane_permutation<T: OrdElem>(cx: &mut Ctx, what: &str, class: &str, op: &Op, before: &[i64], after_world: &[i64], cells: &[usize], pre: &[i64], post: &[i64], dmg: &Option<String>) {
    if op.storage == 0 {
        if let Err(e) = check_permutation_only(before, after_world, &[cells.to_vec()]) {
            cx.fail(class, format!("{}: {}", what, e));
        }
    } else {
        let mut a = pre.to_vec();
        let mut b = post.to_vec();
        a.sort_unstable();
        b.sort_unstable();
        if a != b {
            cx.fail(class, format!("{} (receiver kind {}): the array held multiset {:?} before the call and {:?} after", what, op.storage, a, b));
        } else if let Some(d) = dmg {
            cx.fail(class, format!("{} (receiver kind {}): {}", what, op.storage, d));
        } else if before != after_world {
            cx.fail(class, format!("{} on a copy changed the unrelated world buffer", what));
        }
    }
}

fn op_select<T: OrdElem>(cx: &mut Ctx, scn: &Scenario, w: &mut World<T>, op: &Op, prop: Prop) {
    let cells = match lane_cells(w, op.lane) {
        Some(c) => c,
        None => return,
    };
    let n = cells.len();
    let i = op.idx.first().copied().unwrap_or(0);
    let before = w.snapshot();
    let pre: Vec<i64> = cells.iter().map(|&c| before[c]).collect();
    let in_range = (i as u128) < n as u128;
    if op.storage != 0 {
        cx.stats.probe("receiver_owned_shared_or_cow");
    }
    let (out, sess, post, dmg) = on_lane!(w, op.lane, op.storage, &pre, &cells, &op.policy, budget(n), |v| v.get_from_sorted_mut(i as usize));
    note_case(cx, scn.elem, "select", &pre, &[i], &op.policy, &sess);
    cx.dg.ev(outcome_tag(&out));
    let after = w.snapshot();
    if prop != Prop::C16 && !in_range {
        // a rejected request inside a history: executed, not judged (C16 judges it)
        cx.stats.probe("rejected_request_inside_history");
        return;
    }
    match prop {
        Prop::C02 | Prop::C18 => match &out {
            Outcome::Done(val) => {
                cx.dg.evi(val.to_raw());
                let sorted = sorted_vals::<T>(&pre);
                if *val != sorted[i as usize] {
                    cx.fail(
                        "select-wrong-value",
                        format!("get_from_sorted_mut({}) on {:?} returned {:?}, a full sort gives {:?}", i, pre_dbg::<T>(&pre), val, sorted[i as usize]),
                    );
                }
                if prop == Prop::C02 {
                    for (j, &r) in post.iter().enumerate() {
                        let x = T::from_raw(r);
                        let ok = if j < i as usize { x <= *val } else { x >= *val };
                        if !ok {
                            cx.fail(
                                "select-post-order",
                                format!("after get_from_sorted_mut({}) = {:?}, position {} holds {:?} (lane now {:?})", i, val, j, x, pre_dbg::<T>(&post)),
                            );
                            break;
                        }
                    }
                }
            }
            Outcome::Panicked(m) => cx.fail("select-panic", format!("get_from_sorted_mut({}) on a lane of length {} panicked: {}", i, n, m)),
            Outcome::NoProgress => cx.fail("no-progress", format!("get_from_sorted_mut({}) on a lane of length {} did not complete within {} draws", i, n, budget(n))),
        },
        Prop::C03 => check_lane_permutation::<T>(cx, &format!("get_from_sorted_mut({})", i), "not-a-permutation:select", op, &before, &after, &cells, &pre, &post, &dmg),
        Prop::C16 => {
            if in_range {
                match &out {
                    Outcome::Done(_) => {}
                    Outcome::Panicked(m) => cx.fail("inrange-panic:select", format!("get_from_sorted_mut({}) with length {} panicked: {}", i, n, m)),
                    Outcome::NoProgress => cx.fail("no-progress", format!("get_from_sorted_mut({}) with length {} did not complete", i, n)),
                }
            } else {
                cx.stats.fault("oor_single");
                match &out {
                    Outcome::Done(v) => cx.fail(
                        "oor-accepted:select",
                        format!("get_from_sorted_mut({}) on a lane of length {} returned {:?} instead of panicking", i, n, v),
                    ),
                    Outcome::Panicked(_) => {}
                    Outcome::NoProgress => cx.fail("no-progress", format!("out-of-range get_from_sorted_mut({}) with length {} neither panicked nor returned", i, n)),
                }
            }
        }
        _ => {}
    }
}

fn pre_dbg<T: Elem>(pre: &[i64]) -> Vec<T> {
    pre.iter().map(|&r| T::from_raw(r)).collect()
}

fn op_select_many<T: OrdElem>(cx: &mut Ctx, scn: &Scenario, w: &mut World<T>, op: &Op, prop: Prop) {
    let cells = match lane_cells(w, op.lane) {
        Some(c) => c,
        None => return,
    };
    let n = cells.len();
    let before = w.snapshot();
    let pre: Vec<i64> = cells.iter().map(|&c| before[c]).collect();
    let in_range = op.idx.iter().all(|&i| (i as u128) < n as u128);
    let lane = op.lane;
    let arr = usize_list(&op.idx, op.form);
    if arr.form >= 3 {
        cx.stats.probe("request_list_reversed_view");
    }
    if op.storage != 0 {
        cx.stats.probe("receiver_owned_shared_or_cow");
    }
    if op.idx.len() >= n && n >= 64 {
        cx.stats.probe("request_list_at_least_as_long_as_a_long_lane");
    }
    let (out, sess, post, dmg) = on_lane!(w, lane, op.storage, &pre, &cells, &op.policy, budget(n) + 64 * op.idx.len(), |v| {
        let m = if arr.form == 0 { v.get_many_from_sorted_mut(&arr.backing) } else { v.get_many_from_sorted_mut(&arr.view()) };
        m.into_iter().collect::<Vec<(usize, T)>>()
    });
    let _ = &post;
    note_case(cx, scn.elem, "select_many", &pre, &op.idx, &op.policy, &sess);
    cx.dg.ev(outcome_tag(&out));
    let after = w.snapshot();
    if prop != Prop::C16 && !in_range {
        cx.stats.probe("rejected_request_inside_history");
        return;
    }
    let mut want: Vec<usize> = op.idx.iter().map(|&i| i as usize).collect();
    want.sort_unstable();
    want.dedup();
    if want.len() < op.idx.len() {
        cx.stats.probe("request_list_has_repeats");
    }
    match prop {
        Prop::C02 | Prop::C18 => match &out {
            Outcome::Done(pairs) => {
                for (k, v) in pairs {
                    cx.dg.ev(*k as u64);
                    cx.dg.evi(v.to_raw());
                }
                let keys: Vec<usize> = pairs.iter().map(|p| p.0).collect();
                if keys != want {
                    cx.fail(
                        "select-many-keys",
                        format!("get_many_from_sorted_mut({:?}) iterated keys {:?}, expected one entry per distinct index in increasing order {:?}", op.idx, keys, want),
                    );
                    return;
                }
                let sorted = sorted_vals::<T>(&pre);
                for (k, v) in pairs {
                    if *v != sorted[*k] {
                        cx.fail(
                            "select-many-wrong-value",
                            format!("get_many_from_sorted_mut({:?}) on {:?}: entry {} is {:?}, a full sort gives {:?}", op.idx, pre_dbg::<T>(&pre), k, v, sorted[*k]),
                        );
                        return;
                    }
                }
                if prop == Prop::C18 {
                    // at most ~24 single calls per bulk call (each may cost O(n^2) on runs of equal elements)
                    let stride = (pairs.len() + 23) / 24;
                    for (j, (k, v)) in pairs.iter().enumerate() {
                        if stride > 1 && j % stride != 0 && j + 1 != pairs.len() {
                            continue;
                        }
                        // the single call runs on a clone of the world: same layout, same pre-state
                        let mut w2 = World::<T>::build(scn);
                        restore(&mut w2, &before);
                        let pol = derive_policy(&op.alt, j as u64);
                        let kk = *k;
                        let (o2, s2) = with_policy(&pol, budget(n), || {
                            let mut v2 = lane_view(w2.view_mut(), lane);
                            v2.get_from_sorted_mut(kk)
                        });
                        cx.note_draws(pol.kind, &s2.draws);
                        match o2 {
                            Outcome::Done(x) => {
                                if x != *v {
                                    cx.fail("bulk-vs-single:select", format!("bulk selection entry {} = {:?} but single selection of {} = {:?} (lane {:?})", k, v, k, x, pre_dbg::<T>(&pre)));
                                    return;
                                }
                            }
                            _ => {
                                cx.fail("bulk-vs-single:select", format!("single selection of {} did not return while the bulk form returned {:?}", k, v));
                                return;
                            }
                        }
                    }
                }
            }
            Outcome::Panicked(m) => cx.fail("select-many-panic", format!("get_many_from_sorted_mut({:?}) on a lane of length {} panicked: {}", op.idx, n, m)),
            Outcome::NoProgress => cx.fail("no-progress", format!("get_many_from_sorted_mut({:?}) on a lane of length {} did not complete", op.idx, n)),
        },
        Prop::C03 => check_lane_permutation::<T>(cx, &format!("get_many_from_sorted_mut({:?})", op.idx), "not-a-permutation:select_many", op, &before, &after, &cells, &pre, &post, &dmg),
        Prop::C16 => {
            if in_range {
                match &out {
                    Outcome::Done(_) => {}
                    Outcome::Panicked(m) => cx.fail("inrange-panic:select_many", format!("get_many_from_sorted_mut({:?}) with length {} panicked: {}", op.idx, n, m)),
                    Outcome::NoProgress => cx.fail("no-progress", format!("get_many_from_sorted_mut({:?}) with length {} did not complete", op.idx, n)),
                }
            } else {
                cx.stats.fault("oor_bulk");
                if op.idx.iter().any(|&i| (i as u128) < n as u128) {
                    cx.stats.fault("oor_bulk_mixed");
                }
                match &out {
                    Outcome::Done(p) => cx.fail(
                        "oor-accepted:select_many",
                        format!("get_many_from_sorted_mut({:?}) on a lane of length {} returned {:?} instead of panicking", op.idx, n, p),
                    ),
                    Outcome::Panicked(_) => {}
                    Outcome::NoProgress => cx.fail("no-progress", format!("out-of-range get_many_from_sorted_mut({:?}) with length {} neither panicked nor returned", op.idx, n)),
                }
            }
        }
        _ => {}
    }
}

fn op_partition<T: OrdElem>(cx: &mut Ctx, scn: &Scenario, w: &mut World<T>, op: &Op, prop: Prop) {
    let cells = match lane_cells(w, op.lane) {
        Some(c) => c,
        None => return,
    };
    let n = cells.len();
    let p = op.idx.first().copied().unwrap_or(0);
    let before = w.snapshot();
    let pre: Vec<i64> = cells.iter().map(|&c| before[c]).collect();
    let in_range = (p as u128) < n as u128;
    if op.storage != 0 {
        cx.stats.probe("receiver_owned_shared_or_cow");
    }
    let (out, sess, post, dmg) = on_lane!(w, op.lane, op.storage, &pre, &cells, &op.policy, budget(n), |v| v.partition_mut(p as usize));
    cx.note_draws(op.policy.kind, &sess.draws);
    let _ = scn;
    cx.dg.ev(outcome_tag(&out));
    if let Outcome::Done(k) = &out {
        cx.dg.ev(*k as u64);
    }
    let after = w.snapshot();
    if prop != Prop::C16 && !in_range {
        cx.stats.probe("rejected_request_inside_history");
        return;
    }
    match prop {
        Prop::C03 => check_lane_permutation::<T>(cx, &format!("partition_mut({})", p), "not-a-permutation:partition", op, &before, &after, &cells, &pre, &post, &dmg),
        Prop::C16 => {
            if in_range {
                if n == 1 {
                    cx.stats.probe("partition_single_element");
                }
                match &out {
                    Outcome::Done(_) => {}
                    Outcome::Panicked(m) => cx.fail("inrange-panic:partition", format!("partition_mut({}) with length {} panicked: {}", p, n, m)),
                    Outcome::NoProgress => cx.fail("no-progress", format!("partition_mut({}) did not complete", p)),
                }
            } else {
                cx.stats.fault("oor_partition");
                match &out {
                    Outcome::Done(k) => cx.fail("oor-accepted:partition", format!("partition_mut({}) on a lane of length {} returned {} instead of panicking", p, n, k)),
                    Outcome::Panicked(_) => {}
                    Outcome::NoProgress => cx.fail("no-progress", format!("out-of-range partition_mut({}) neither panicked nor returned", p)),
                }
            }
        }
        _ => {}
    }
}

// ---------------------------------------------------------------------------
// quantiles
// ---------------------------------------------------------------------------

/// Call the library's quantile routine named by `name` on view `v`.
/// Returns the result as a dynamic-dimensional array.
pub fn call_quantile<T: OrdElem>(
    v: ArrayViewMutD<'_, T>,
    static_dim: bool,
    name: &str,
    lane: Option<(usize, usize)>,
    axis: usize,
    qs: &[f64],
    strat: Strat,
    form: u8,
) -> Result<ArrayD<T>, String> {
    match name {
        "quantile1" => {
            let mut l = lane_view(v, lane);
            let q = n64(qs[0]);
            with_strat!(strat, i => l.quantile_mut(q, i)).map(|x| ndarray::arr0(x).into_dyn()).map_err(|e| format!("{:?}", e))
        }
        "quantiles1" => {
            let mut l = lane_view(v, lane);
            let qa = q_list(qs, form);
            let r = if qa.form == 0 {
                with_strat!(strat, i => l.quantiles_mut(&qa.backing, i))
            } else {
                with_strat!(strat, i => l.quantiles_mut(&qa.view(), i))
            };
            r.map(|a| a.into_dyn()).map_err(|e| format!("{:?}", e))
        }
        "quantile_axis" => {
            let q = n64(qs[0]);
            with_dim!(v, static_dim, |vv| nd_single(vv, axis, q, strat))
        }
        "quantiles_axis" => {
            let qa = q_list(qs, form);
            with_dim!(v, static_dim, |vv| nd_bulk(vv, axis, &qa, strat))
        }
        _ => Err("unknown quantile op".into()),
    }
}

fn nd_single<T: OrdElem, D: Dimension + RemoveAxis>(mut v: ArrayViewMut<'_, T, D>, axis: usize, q: N64, strat: Strat) -> Result<ArrayD<T>, String> {
    with_strat!(strat, i => v.quantile_axis_mut(Axis(axis), q, i)).map(|a| a.into_dyn()).map_err(|e| format!("{:?}", e))
}

fn nd_bulk<T: OrdElem, D: Dimension + RemoveAxis>(mut v: ArrayViewMut<'_, T, D>, axis: usize, qa: &ListArg<N64>, strat: Strat) -> Result<ArrayD<T>, String> {
    let r = if qa.form == 0 {
        with_strat!(strat, i => v.quantiles_axis_mut(Axis(axis), &qa.backing, i))
    } else {
        with_strat!(strat, i => v.quantiles_axis_mut(Axis(axis), &qa.view(), i))
    };
    r.map(|a| a.into_dyn()).map_err(|e| format!("{:?}", e))
}

/// lanes (as parent cells) a quantile op works on, and the expected result shape
pub fn quantile_geometry<T: Elem>(w: &World<T>, op: &Op) -> Option<(Vec<Vec<usize>>, Vec<usize>)> {
    let bulk = op.name.starts_with("quantiles");
    if op.name.ends_with('1') {
        let cells = lane_cells(w, op.lane)?;
        let shape = if bulk { vec![op.qs.len()] } else { vec![] };
        Some((vec![cells], shape))
    } else {
        if op.axis >= w.idx.ndim() {
            return None;
        }
        let mut shape = w.view_shape();
        if bulk {
            shape[op.axis] = op.qs.len();
        } else {
            shape.remove(op.axis);
        }
        Some((w.lanes(op.axis), shape))
    }
}

/// does some (lane, q) of this call have a lower/higher pair whose difference
/// is not representable in the element type (known finding F4)?
/// Does the recorded finding F4 apply to interpolating between `lo` and `hi` with fraction `frac`?
/// Midpoint computes `higher - lower` in the element type; Linear converts both ends to f64 first
/// and only `fraction * (higher - lower)` has to fit the element type.
pub fn f4_applies(ty: ElemTy, lo: NumVal, hi: NumVal, frac: f64, strat: Strat) -> bool {
    let int_max = ty.spread_max();
    match strat {
        Strat::Midpoint => !spread_representable(lo, hi, int_max),
        Strat::Linear => match (lo, hi) {
            (NumVal::I(a), NumVal::I(b)) => ((b - a) as f64 * frac).abs() >= int_max as f64,
            _ => !(hi.as_f64() - lo.as_f64()).is_finite(),
        },
        _ => false,
    }
}

/// does some (lane, q) of this call fall under the recorded finding F4?
pub fn spread_overflow_possible(ty: ElemTy, lanes_sorted: &[Vec<NumVal>], qs: &[f64], strat: Strat) -> bool {
    if strat.selecting() {
        return false;
    }
    for l in lanes_sorted {
        for &q in qs {
            for c in index_pairs(q, l.len()) {
                if f4_applies(ty, l[c.lo], l[c.hi], c.frac, strat) {
                    return true;
                }
            }
        }
    }
    false
}

pub fn sorted_numvals(ty: ElemTy, raws: &[i64]) -> Vec<NumVal> {
    let mut v: Vec<NumVal> = raws.iter().map(|&r| num_of_raw(ty, r)).collect();
    v.sort_by(|a, b| match (a, b) {
        (NumVal::I(x), NumVal::I(y)) => x.cmp(y),
        (x, y) => x.as_f64().partial_cmp(&y.as_f64()).unwrap(),
    });
    v
}

/// C03 on an owned receiver: the per-axis quantile routines run on an owned copy of the view
/// (rejected requests included); afterwards the array must have the shape it had and every lane
/// along the axis must hold the multiset it held.
fn op_quantile_owned<T: OrdElem>(cx: &mut Ctx, scn: &Scenario, w: &mut World<T>, op: &Op) {
    if op.name.ends_with('1') || op.axis >= w.idx.ndim() || op.qs.iter().any(|q| q.is_nan()) {
        return;
    }
    let mut owned: ArrayD<T> = w.view_mut().to_owned();
    let shape0 = owned.shape().to_vec();
    let lane_sets = |a: &ArrayD<T>| -> Vec<Vec<i64>> {
        a.lanes(Axis(op.axis))
            .into_iter()
            .map(|l| {
                let mut v: Vec<i64> = l.iter().map(|x| x.to_raw()).collect();
                v.sort_unstable();
                v
            })
            .collect()
    };
    let before_sets = lane_sets(&owned);
    let total = owned.len();
    let (out, sess) = with_policy(&op.policy, budget(total) + 64 * (before_sets.len() + 1) * (op.qs.len() + 1), || {
        let qa = q_list(&op.qs, op.form);
        let bulk = op.name == "quantiles_axis";
        let q0 = n64(op.qs.first().copied().unwrap_or(0.5));
        with_strat!(op.strat, i => if bulk {
            if qa.form == 0 { owned.quantiles_axis_mut(Axis(op.axis), &qa.backing, i).map(|_| ()) } else { owned.quantiles_axis_mut(Axis(op.axis), &qa.view(), i).map(|_| ()) }
        } else {
            owned.quantile_axis_mut(Axis(op.axis), q0, i).map(|_| ())
        })
        .is_ok()
    });
    cx.note_draws(op.policy.kind, &sess.draws);
    cx.stats.probe("quantile_on_owned_receiver");
    let _ = scn;
    if matches!(out, Outcome::Done(false)) {
        cx.stats.probe("rejected_quantile_request_on_owned_receiver");
    }
    if owned.shape() != shape0.as_slice() {
        cx.fail("not-a-permutation:owned-shape", format!("{} (axis {}, qs {:?}) on an owned array of shape {:?} left it with shape {:?}", op.name, op.axis, op.qs, shape0, owned.shape()));
        return;
    }
    if lane_sets(&owned) != before_sets {
        cx.fail(&format!("not-a-permutation:{}", op.name), format!("{} (axis {}, qs {:?}) on an owned array of shape {:?}: some lane along the axis no longer holds the elements it held (call returned {})", op.name, op.axis, op.qs, shape0, match out { Outcome::Done(true) => "Ok", Outcome::Done(false) => "Err", _ => "by panicking" }));
    }
}

fn op_quantile<T: OrdElem>(cx: &mut Ctx, scn: &Scenario, w: &mut World<T>, op: &Op, prop: Prop) {
    if prop == Prop::C03 && op.storage == 1 {
        op_quantile_owned(cx, scn, w, op);
        return;
    }
    let (lanes, want_shape) = match quantile_geometry(w, op) {
        Some(g) => g,
        None => return,
    };
    if op.qs.is_empty() && !op.name.starts_with("quantiles") {
        return;
    }
    // lane length: the axis length even when there is no lane at all (a zero-length other axis)
    let n = if op.name.ends_with('1') { lanes.first().map(|l| l.len()).unwrap_or(0) } else { w.view_shape()[op.axis] };
    if n == 0 || op.qs.iter().any(|q| !(0.0..=1.0).contains(q)) {
        return; // outside the domain of the claimed properties (error paths are C17)
    }
    if lanes.is_empty() {
        cx.stats.probe("quantile_of_array_without_lanes");
    }
    let ty = scn.elem;
    let before = w.snapshot();
    if op.strat == Strat::Linear && prop != Prop::C03 && !linear_domain_ok(ty, &lanes.iter().flat_map(|l| l.iter().map(|&c| before[c])).collect::<Vec<_>>()) {
        return; // outside the documented domain of Linear
    }
    let total: usize = lanes.iter().map(|l| l.len()).sum();
    let bud = budget(total) + 64 * lanes.len() * (op.qs.len() + 1);
    let (out, sess) = with_policy(&op.policy, bud, || call_quantile(w.view_mut(), scn.static_dim, &op.name, op.lane, op.axis, &op.qs, op.strat, op.form));
    let all_pre: Vec<i64> = lanes.iter().flat_map(|l| l.iter().map(|&c| before[c])).collect();
    let args: Vec<u64> = op.qs.iter().map(|q| q.to_bits()).chain([op.strat as u64, op.axis as u64]).collect();
    note_case(cx, ty, &op.name, &all_pre, &args, &op.policy, &sess);
    cx.dg.ev(outcome_tag(&out));
    let after = w.snapshot();
    let lanes_sorted: Vec<Vec<NumVal>> = lanes.iter().map(|l| sorted_numvals(ty, &l.iter().map(|&c| before[c]).collect::<Vec<_>>())).collect();
    let overflow_possible = spread_overflow_possible(ty, &lanes_sorted, &op.qs, op.strat);
    if prop == Prop::C03 {
        if let Err(e) = check_permutation_only(&before, &after, &lanes) {
            cx.fail(&format!("not-a-permutation:{}", op.name), format!("{} axis {}: {}", op.name, op.axis, e));
        }
        return;
    }
    let res = match out {
        Outcome::Done(Ok(r)) => r,
        Outcome::Done(Err(e)) => {
            cx.fail("quantile-error", format!("{} with valid q {:?} on lanes of length {} returned Err({})", op.name, op.qs, n, e));
            return;
        }
        Outcome::Panicked(m) => {
            if overflow_possible {
                cx.known("interp-spread-overflow", format!("{} {} q={:?} panicked ({}) on a lane whose higher - lower is not representable in {}", op.name, op.strat.name(), op.qs, m, ty.name()));
            } else {
                cx.fail("quantile-panic", format!("{} {} q={:?} on lanes of length {} panicked: {}", op.name, op.strat.name(), op.qs, n, m));
            }
            return;
        }
        Outcome::NoProgress => {
            cx.fail("no-progress", format!("{} did not complete within {} draws", op.name, bud));
            return;
        }
    };
    for x in res.iter() {
        cx.dg.evi(x.to_raw());
    }
    if prop == Prop::C01 {
        if res.shape() != want_shape.as_slice() {
            cx.fail("quantile-shape", format!("{} on view of shape {:?} axis {} with {} q values returned shape {:?}, expected {:?}", op.name, w.view_shape(), op.axis, op.qs.len(), res.shape(), want_shape));
            return;
        }
        // element (lane l, request j)
        let bulk = op.name.starts_with("quantiles");
        // result entries per lane, in request order (collected once: lanes can be many)
        let per_lane: Vec<Vec<T>> = if op.name.ends_with('1') {
            vec![res.iter().cloned().collect()]
        } else if bulk {
            res.lanes(Axis(op.axis)).into_iter().map(|l| l.to_vec()).collect()
        } else {
            res.iter().map(|x| vec![x.clone()]).collect()
        };
        if per_lane.len() != lanes_sorted.len() && !(lanes_sorted.is_empty() && res.is_empty()) {
            cx.fail("quantile-shape", format!("{} returned {} lanes of results for {} lanes of data", op.name, per_lane.len(), lanes_sorted.len()));
            return;
        }
        let get = |l: usize, j: usize| -> T { per_lane[l][j].clone() };
        'outer: for (l, sorted) in lanes_sorted.iter().enumerate() {
            for (j, &q) in op.qs.iter().enumerate() {
                let got = get(l, j);
                if let Err(e) = check_quantile(sorted, q, op.strat, got.num()) {
                    let ovf = !op.strat.selecting() && index_pairs(q, sorted.len()).iter().any(|c| f4_applies(ty, sorted[c.lo], sorted[c.hi], c.frac, op.strat));
                    if ovf {
                        cx.known("interp-spread-overflow", format!("{} lane {} request {}: {}", op.name, l, j, e));
                    } else {
                        cx.fail(&format!("quantile-value:{}", op.strat.name()), format!("{} lane {} request {}: {}", op.name, l, j, e));
                        break 'outer;
                    }
                }
                let ip = index_pairs(q, sorted.len());
                if ip.len() > 1 {
                    cx.stats.probe("q_within_rounding_of_boundary");
                }
                if ip[0].half == std::cmp::Ordering::Equal && !ip[0].integral {
                    cx.stats.probe("q_fraction_exactly_half");
                }
            }
        }
        // determinism clause: a fresh clone under a different schedule gives the identical array
        let mut w2 = World::<T>::build(scn);
        restore(&mut w2, &before);
        let (o2, s2) = with_policy(&op.alt, bud, || call_quantile(w2.view_mut(), scn.static_dim, &op.name, op.lane, op.axis, &op.qs, op.strat, op.form));
        cx.note_draws(op.alt.kind, &s2.draws);
        match o2 {
            Outcome::Done(Ok(r2)) => {
                let a: Vec<i64> = res.iter().map(|x| x.to_raw()).collect();
                let b: Vec<i64> = r2.iter().map(|x| x.to_raw()).collect();
                let same = res.shape() == r2.shape() && a.iter().zip(&b).all(|(x, y)| x == y || num_of_raw(ty, *x).num_eq(num_of_raw(ty, *y)));
                if !same && overflow_possible {
                    cx.known("interp-spread-overflow", format!("{} results differ between schedules on a lane whose higher - lower is not representable", op.name));
                } else if !same {
                    cx.fail("quantile-schedule-dependent", format!("{} {} q={:?}: result {:?} under one pivot schedule, {:?} under another", op.name, op.strat.name(), op.qs, res, r2));
                }
            }
            _ => {
                if overflow_possible {
                    cx.known("interp-spread-overflow", format!("{} second schedule panicked on an unrepresentable spread", op.name));
                } else {
                    cx.fail("quantile-schedule-dependent", format!("{} {} q={:?} returned under one pivot schedule and failed under another", op.name, op.strat.name(), op.qs));
                }
            }
        }
    }
    if prop == Prop::C18 && op.name.starts_with("quantiles") {
        let single = if op.name.ends_with('1') { "quantile1" } else { "quantile_axis" };
        let stride = (op.qs.len() + 23) / 24;
        for (j, &q) in op.qs.iter().enumerate() {
            if stride > 1 && j % stride != 0 && j + 1 != op.qs.len() {
                continue;
            }
            let mut w2 = World::<T>::build(scn);
            restore(&mut w2, &before);
            let pol = derive_policy(&op.alt, j as u64);
            let (o2, s2) = with_policy(&pol, bud, || call_quantile(w2.view_mut(), scn.static_dim, single, op.lane, op.axis, &[q], op.strat, 0));
            cx.note_draws(pol.kind, &s2.draws);
            let slice: Vec<T> = if op.name.ends_with('1') { vec![res[[j].as_slice()].clone()] } else { res.index_axis(Axis(op.axis), j).iter().cloned().collect() };
            match o2 {
                Outcome::Done(Ok(r2)) => {
                    let b: Vec<T> = r2.iter().cloned().collect();
                    if b.len() != slice.len() || b.iter().zip(&slice).any(|(x, y)| x != y) {
                        cx.fail("bulk-vs-single:quantile", format!("{} {} qs={:?}: slice {} of the bulk result is {:?}, the single call for q={:?} gives {:?}", op.name, op.strat.name(), op.qs, j, slice, q, b));
                        return;
                    }
                }
                _ => {
                    if overflow_possible {
                        cx.known("interp-spread-overflow", format!("{} single call panicked on an unrepresentable spread", op.name));
                    } else {
                        cx.fail("bulk-vs-single:quantile", format!("{}: the bulk call returned but the single call for q={:?} did not", op.name, q));
                    }
                    return;
                }
            }
        }
    }
}

/// Linear interpolation on 64-bit integers is documented through f64, so the
/// statements cover it only for magnitudes below 2^52.
pub fn linear_domain_ok(ty: ElemTy, raws: &[i64]) -> bool {
    match ty {
        ElemTy::I64 => raws.iter().all(|&r| r.unsigned_abs() < (1u64 << 52)),
        ElemTy::U64 => raws.iter().all(|&r| (r as u64) < (1u64 << 52)),
        _ => true,
    }
}

/// overwrite the parent buffer of `w` with a snapshot
pub fn restore<T: Elem>(w: &mut World<T>, snap: &[i64]) {
    for (x, &r) in w.parent_cells_mut().iter_mut().zip(snap) {
        *x = T::from_raw(r);
    }
}
